"""C17 - The suppression marker removes exactly the marked function (which comments qualify, which line counts, where the filter sits)."""
from __future__ import annotations

import ast

from ..core import (AnalysisError, FuncInfo, Project, attr_chain, const_int, const_str, enclosing, expand, guards_of, local_defs,
                    term, unparse)
from ..paths import atoms_of, chain_ops, enumerate_paths

SU = "codelimit.common.source_utils"
SCU = "codelimit.common.scope.scope_utils"
MARKER = "nocl"


def _predicate_of(prj, fi: FuncInfo):
    """(param name, statements) of the per-token predicate used by filter_nocl_comment_tokens:
    a nested function, or the condition of the returned comprehension."""
    rets = [r for r in fi.node.body if isinstance(r, ast.Return)]
    if not rets or not isinstance(rets[-1].value, ast.ListComp):
        raise AnalysisError(f"{fi.disp}: does not return a filtering list comprehension")
    comp = rets[-1].value
    g = comp.generators[0]
    if not (isinstance(comp.elt, ast.Name) and isinstance(g.target, ast.Name) and comp.elt.id == g.target.id and len(g.ifs) == 1):
        raise AnalysisError(f"{fi.disp}: comprehension is not `[t for t in tokens if <predicate>]`")
    cond = g.ifs[0]
    if isinstance(cond, ast.Call) and isinstance(cond.func, ast.Name) and cond.func.id in fi.nested and len(cond.args) == 1:
        sub = fi.nested[cond.func.id]
        return sub.params()[0], sub.node.body, sub
    # inline condition: wrap as a single return
    return g.target.id, [ast.Return(value=cond)], fi


MARKER_TABLE = [
    # (text, qualifies, class)
    ("# nocl", True, "plain"), ("#nocl", True, "no-space"), ("#    nocl", True, "spaces"), ("# NOCL", True, "upper-case"),
    ("# NoCl: reason", True, "mixed-case + trailing text"), ("// nocl", True, "plain"), ("//nocl", True, "no-space"),
    ("//   NOCL", True, "spaces + upper-case"), ("/* nocl */", True, "plain"), ("/*nocl*/", True, "no-space"), ("/* NoCl */", True, "mixed-case"),
    ("# see nocl", False, "mentions-later"), ("// this is not nocl", False, "mentions-later"), ("/* x nocl */", False, "mentions-later"),
    ("# foo # nocl", False, "mentions-later"), ("// bar // nocl", False, "mentions-later"), ("/* a /* nocl */", False, "mentions-later"),
    ("# x; nocl", False, "mentions-later"),
    ("# // nocl", False, "mentions-later"), ("#; nocl", False, "mentions-later"), ("# /* nocl */", False, "mentions-later"), ("// /* nocl */", False, "mentions-later"),
    ("# TODO", False, "other"), ("#", False, "empty"), ("// no cl", False, "other"), ("# nolc", False, "other"),
]


def rule_R1_evaluated(ctx, prj):
    """the marker predicate evaluated over classes of comment text (leader x spacing x case x position of the marker)"""
    from ..absint import MiniInterp, PyRaise, Unknown
    from ..absint import make_token
    fi = prj.func(f"{SU}:filter_nocl_comment_tokens")

    def qualifies(kind_, text):
        it = MiniInterp(prj)
        tok = make_token(it, prj, kind_, text)
        res = it.call(fi, [[tok]], {})
        res = list(res.rest()) if hasattr(res, "rest") else list(res)
        if len(res) > 1 or (res and res[0] is not tok):
            raise Unknown("result is neither [] nor [t]")
        return len(res) == 1
    bad = []
    n = 0
    for text, want, cls_ in MARKER_TABLE:
        for kind_ in ("Comment.Single", "Comment.Multiline", "Comment"):
            n += 1
            if qualifies(kind_, text) != want:
                bad.append((kind_, text, want, cls_))
    for kind_ in ("Name", "Literal.String", "Text", "Keyword", "Operator"):
        n += 1
        if qualifies(kind_, "# nocl"):
            bad.append((kind_, "# nocl", False, "not-a-comment"))
    if not bad:
        ctx.ok("R1", fi.site(), f"filter_nocl_comment_tokens: {n} (token kind, comment text) classes decided as specified: leaders #, //, /* with any "
                                f"spacing and letter case qualify, comments that mention the marker later and non-comment tokens do not")
        return
    classes = {c for _, _, _, c in bad}
    pos_total = sum(1 for _, w, _ in MARKER_TABLE if w) * 3
    pos_bad = [(k, t) for k, t, w, _ in bad if w]
    if "mentions-later" in classes:
        sub = "not-a-prefix-test"
        pick = next(x for x in bad if x[3] == "mentions-later")
    elif "not-a-comment" in classes:
        sub = "not-only-comments"
        pick = next(x for x in bad if x[3] == "not-a-comment")
    elif pos_bad and len(pos_bad) == pos_total:
        sub, pick = "marker-literal", bad[0]
    elif pos_bad and all(any(ch.isupper() for ch in t) for _, t in pos_bad):
        sub, pick = "case", bad[0]
    elif pos_bad and all(" " in t.strip("/*# ") or t[1:2] == " " or t[2:3] == " " for _, t in pos_bad) and not any(t in ("#nocl", "//nocl", "/*nocl*/") for _, t in pos_bad):
        sub, pick = "strip", bad[0]
    elif pos_bad and len({t[:1] for _, t in pos_bad}) == 1:
        sub, pick = "leader-length", bad[0]
    else:
        sub, pick = "final-test", bad[0]
    kind_, text, want, cls_ = pick
    what = ("qualifies although it only mentions the marker later in its text: such a comment suppresses the function" if cls_ == "mentions-later" else
            "qualifies although the token is not a comment" if cls_ == "not-a-comment" else
            f"{'does not qualify' if want else 'qualifies'}; required: {'qualifies' if want else 'does not qualify'} ({cls_})")
    ctx.viol("R1", f"filter_nocl_comment_tokens/{sub}", fi.site(), f"a {kind_} token with text {text!r} {what} ({len(bad)} of {n} classes differ)")


def rule_R1(ctx, prj):
    from ..absint import PyRaise, Unknown
    ctx.rule("R1", "a comment qualifies exactly when it is a comment token whose text, after its leader (#, //, /*) and optional "
                   "spaces and case-insensitively, BEGINS with 'nocl' - decided by evaluating the predicate over classes of "
                   "(token kind, comment text); fallback: path analysis of the predicate", floor=1)
    try:
        rule_R1_evaluated(ctx, prj)
        return
    except (Unknown, PyRaise) as e:
        ctx.info(f"marker predicate not evaluable ({e}); falling back to the path analysis")
    rule_R1_paths(ctx, prj)


def rule_R1_paths(ctx, prj):
    ctx.rule("R1", "a comment qualifies exactly when, on every path of the predicate: the token is a comment; the tested text "
                   "is case-folded; a recognised leader is removed by a slice of exactly its length and the rest is stripped; "
                   "and the final test is a PREFIX test (startswith) against the literal 'nocl' - not containment, not a "
                   "search, and not before case folding", floor=3)
    fi = prj.func(f"{SU}:filter_nocl_comment_tokens")
    tok, body, owner = _predicate_of(prj, fi)
    paths = enumerate_paths(body)
    accepting = 0
    for p in paths:
        if p.ret is None:
            continue
        r = p.ret
        if isinstance(r, ast.Constant) and r.value in (False, None):
            continue
        accepting += 1
        # flatten `a and b` returns: every conjunct is an assumption, the last one the marker test
        conj = [r]
        if isinstance(r, ast.BoolOp) and isinstance(r.op, ast.And):
            conj = list(r.values)
        assumes = list(p.assumes) + [(c, True) for c in conj[:-1]]
        final = conj[-1]
        key_base = "filter_nocl_comment_tokens"
        # (a) comment only
        is_comment = any(pol and unparse(t) == f"{tok}.is_comment()" for t, pol in assumes) or \
            any(pol and not dis and unparse(a) == f"{tok}.is_comment()" for t, tp in assumes for a, pol, dis in atoms_of(t, tp))
        if not is_comment:
            ctx.viol("R1", f"{key_base}/not-only-comments", owner.site(), f"a token can qualify without being a comment (path assumptions: {[unparse(t) for t, _ in assumes][:3]})")
            continue
        # (c) final test
        if not (isinstance(final, ast.Call) and isinstance(final.func, ast.Attribute)):
            ctx.viol("R1", f"{key_base}/final-test", owner.site(), f"the marker test is {unparse(final)[:80]}; required <text>.startswith('nocl')")
            continue
        if final.func.attr != "startswith":
            how = "anywhere in the comment" if final.func.attr in ("search", "find", "__contains__", "count", "index", "findall") else f"with .{final.func.attr}()"
            ctx.viol("R1", f"{key_base}/not-a-prefix-test", owner.site(),
                     f"the marker is looked for {how} ({unparse(final)[:70]}): a comment that merely mentions '# nocl' later in its text suppresses the function")
            continue
        lit = const_str(final.args[0]) if final.args else None
        if lit != MARKER:
            ctx.viol("R1", f"{key_base}/marker-literal", owner.site(), f"the prefix tested is {lit!r}; required 'nocl' (lower case, compared after case folding)")
            continue
        base, ops = chain_ops(final.func.value)
        names = [o[1] if o[0] == "call" else o[0] for o in ops]
        if base != f"{tok}.value":
            ctx.viol("R1", f"{key_base}/tested-text", owner.site(), f"the text tested is derived from {base}, not from the comment token's text")
            continue
        # leader taken on this path?
        leaders = []
        for t, pol in assumes:
            for a, apol, dis in atoms_of(t, pol):
                if isinstance(a, ast.Call) and isinstance(a.func, ast.Attribute) and a.func.attr == "startswith" and a.args and const_str(a.args[0]) is not None \
                        and const_str(a.args[0]) != MARKER:
                    if apol:
                        leaders.append(const_str(a.args[0]))
        which = "/".join(sorted(set(leaders))) or "no leader"
        key = f"{key_base}/path[{which}]"
        if not any(n in ("lower", "casefold") for n in names):
            ctx.viol("R1", key + "/case", owner.site(), f"on the path for {which} the text is tested without case folding ({unparse(final.func.value)[:70]}): "
                     f"'NOCL' / 'NoCl' do not suppress there, while they do for other comment styles")
            continue
        if leaders:
            sl = [o for o in ops if o[0] == "slice"]
            k = const_int(sl[0][1]) if sl and sl[0][1] is not None else None
            lens = {len(l) for l in leaders}
            if not sl or sl[0][2] is not None or lens != {k}:
                ctx.viol("R1", key + "/leader-length", owner.site(), f"the leader(s) {sorted(set(leaders))} (length {sorted(lens)}) are removed by the slice "
                         f"[{k}:]: the rest no longer starts at the marker")
                continue
            idx_slice = ops.index(sl[0])
            if not any(o[0] == "call" and o[1] == "strip" for o in ops[idx_slice + 1:]):
                ctx.viol("R1", key + "/strip", owner.site(), "whitespace after the comment leader is not stripped before the prefix test: '# nocl' does not qualify")
                continue
        else:
            if any(o[0] == "slice" for o in ops):
                ctx.viol("R1", key + "/slice-without-leader", owner.site(), "text is sliced although no leader was recognised on this path")
                continue
        ctx.ok("R1", owner.site(), f"{key}: {tok}.value -> {' -> '.join(names) or 'as is'} -> startswith('nocl')")
    if accepting == 0:
        ctx.viol("R1", "filter_nocl_comment_tokens/no-accepting-path", owner.site(), "no path of the predicate can accept a comment: the marker never suppresses")


MARK = "filter_nocl_comment_tokens("


def _find_marker_test(prj, bs):
    """locate the membership test against the marker lines: -> (function view, Compare node, element name,
    collection expression (in that function), mapping of that function's params to build_scopes argument terms)"""
    def tests(f, is_marker):
        out = []
        for n in f.walk():
            if isinstance(n, ast.Compare) and len(n.ops) == 1 and isinstance(n.ops[0], (ast.In, ast.NotIn)) and is_marker(n.comparators[0]):
                out.append(n)
        return out
    own = tests(bs, lambda e: MARK in term(bs, e))
    if own:
        return bs, own, {}
    for c in bs.calls():
        args = list(c.args) + [k.value for k in c.keywords]
        if not any(MARK in term(bs, a) for a in args):
            continue
        tg, kind = prj.resolve_call(bs, c)
        if kind not in ("direct", "self") or len(tg) != 1 or tg[0].qual.endswith(":filter_nocl_comment_tokens"):
            continue
        g = prj.func(tg[0].qual)
        ps = g.params()
        amap = {}
        for p, a in zip(ps, c.args):
            amap[p] = a
        for k in c.keywords:
            if k.arg:
                amap[k.arg] = k.value
        mp = {p for p, a in amap.items() if MARK in term(bs, a)}

        def is_marker(e, g=g, mp=mp):
            return any(isinstance(x, ast.Name) and x.id in mp for x in ast.walk(expand(g, e)))
        found = tests(g, is_marker)
        if found:
            return g, found, {"call": c, "amap": amap}
    return None, [], {}


def rule_R2(ctx, prj):
    ctx.rule("R2", "a scope is dropped iff the line of its header's NAME token is among the lines of the marker tokens; the "
                   "filter is pure (new list, scopes untouched)", floor=2)
    bs = prj.func(f"{SCU}:build_scopes")
    f, found, info = _find_marker_test(prj, bs)
    if not found:
        # positively wrong: the marker lines are intersected with a COLLECTION of lines of the element
        for g in [bs] + [prj.func(t.qual) for c in bs.calls() for t in prj.resolve_call(bs, c)[0] if prj.resolve_call(bs, c)[1] in ("direct", "self")]:
            for n in g.walk():
                setop = (isinstance(n, ast.Call) and isinstance(n.func, ast.Attribute) and n.func.attr in ("intersection", "isdisjoint", "issubset", "issuperset")) or \
                    (isinstance(n, ast.BinOp) and isinstance(n.op, (ast.BitAnd, ast.Sub)))
                if setop and ".location.line" in term(g, n) and ("nocl" in unparse(n).lower() or MARK in term(g, n)):
                    ctx.viol("R2", f"{g.local}/which-line", g.site(n),
                             f"a function is dropped by the set operation `{unparse(n)[:90]}` between the marker lines and a COLLECTION of lines of the function; "
                             f"required: exactly when the line of its header's name token is a marker line (a marker on a continuation line of the header, "
                             f"on the block's first line or elsewhere must not suppress)")
                    return None
        raise AnalysisError("build_scopes: no membership test against the marker tokens' lines found (neither in build_scopes nor in a function that receives them)")
    result = None
    for m in found:
        left = term(f, m.left)
        # element and collection: innermost loop / comprehension around the test
        elem = coll = None
        for lp in enclosing(f, m, (ast.For, ast.ListComp, ast.GeneratorExp, ast.SetComp)):
            tgt, it = (lp.target, lp.iter) if isinstance(lp, ast.For) else (lp.generators[0].target, lp.generators[0].iter)
            if isinstance(tgt, ast.Name) and (left.startswith(tgt.id + ".") or tgt.id in {x.id for x in ast.walk(expand(f, m.left)) if isinstance(x, ast.Name)}):
                elem, coll, where = tgt.id, it, lp
                break
        if elem is None:
            raise AnalysisError(f"{f.site(m)}: the element tested against the marker lines is not a loop / comprehension variable")
        # right side: lines of the marker tokens
        right = expand(f, m.comparators[0])
        rt = unparse(right)
        if ".location.line" not in rt and ".line" not in rt:
            ctx.viol("R2", f"{f.local}/which-line", f.site(m), f"the test `{unparse(m)[:80]}` does not compare with the LINES of the marker tokens ({rt[:60]})")
            continue
        want = (f"{elem}.header.name_token.location.line", f"{elem}.name_token.location.line")
        # kept iff not in
        kept_when_in = None
        if isinstance(where, ast.For):
            keeps = [c for c in ast.walk(where) if isinstance(c, ast.Call) and isinstance(c.func, ast.Attribute) and c.func.attr == "append"
                     and c.args and term(f, c.args[0]) in (elem,) or (isinstance(c, ast.Yield) and c.value is not None and term(f, c.value) == elem)]
            from ..core import atoms_at
            for k in keeps:
                for a, pol in atoms_at(f, k):
                    if a is m:
                        kept_when_in = (isinstance(m.ops[0], ast.In)) == pol
            if not keeps or kept_when_in is None:
                raise AnalysisError(f"{f.site(m)}: how the marker test decides what is kept is not understood")
        else:
            in_filter = any(any(x is m for x in ast.walk(cnd)) for cnd in where.generators[0].ifs)
            if not in_filter:
                raise AnalysisError(f"{f.site(m)}: the marker test is not the comprehension's filter")
            cond = where.generators[0].ifs
            pol = True
            from ..core import implied_atoms
            kept_when_in = None
            for cnd in cond:
                for a, p2 in implied_atoms(cnd, True):
                    if a is m:
                        kept_when_in = isinstance(m.ops[0], ast.In) == p2
            if kept_when_in is None:
                raise AnalysisError(f"{f.site(m)}: polarity of the marker test not understood")
        if kept_when_in:
            ctx.viol("R2", f"{f.local}/which-line", f.site(m), f"a function is KEPT exactly when `{unparse(m)[:80]}`: the marked functions are the only ones reported")
        elif left in want:
            ctx.ok("R2", f.site(m), f"{f.local}: kept iff {left} not in marker lines")
        else:
            ctx.viol("R2", f"{f.local}/which-line", f.site(m),
                     f"a function is dropped by the test `{unparse(m)[:100]}` (on {left[:60]}); required: exactly when the line of its header's name token is a marker line "
                     f"(a marker on a continuation line of the header, on the block's first line or elsewhere must not suppress)")
        result = (f, m, elem, coll, info)
    if f is not bs:
        muts = [n for n in f.walk() if isinstance(n, (ast.Assign, ast.AugAssign)) and any(isinstance(t, ast.Attribute) for t in (n.targets if isinstance(n, ast.Assign) else [n.target]))]
        if muts:
            ctx.viol("R2", f"{f.local}/impure", f.site(muts[0]), "the marker filter modifies scopes instead of only selecting them")
        else:
            ctx.ok("R2", f.site(), f"{f.local}: pure filter")
    else:
        ctx.ok("R2", f.site(), "marker filter inside build_scopes: selects only")
    return result


def rule_R3(ctx, prj):
    ctx.rule("R3", "the marker list is computed from the RAW token list handed to build_scopes (comments included), not from "
                   "the comment-free list", floor=1)
    bs = prj.func(f"{SCU}:build_scopes")
    raw = bs.params()[0]
    calls = [c for c in bs.calls() if prj.resolve_callee_name(bs, c).endswith(":filter_nocl_comment_tokens")]
    if not calls:
        raise AnalysisError("build_scopes no longer computes the marker tokens")
    for c in calls:
        a = term(bs, c.args[0])
        if a == raw:
            ctx.ok("R3", bs.site(c), f"build_scopes: markers = filter_nocl_comment_tokens({raw}) on the raw tokens")
        else:
            ctx.viol("R3", "build_scopes/marker-source", bs.site(c), f"markers are computed from {a[:70]}: comment tokens have already been filtered out there, so no marker is ever found")


def rule_R4(ctx, prj, res):
    ctx.rule("R4", "the marker filter is applied to the finished flat scope list (after header/block pairing) and its result is "
                   "what nesting (fold_scopes / filter_scopes_nested_functions) receives", floor=1)
    bs = prj.func(f"{SCU}:build_scopes")
    if res is None:
        ctx.info("marker filter not located (R2 reports why): position rule R4 not judged")
        ctx.ok("R4", bs.site(), "not judged: marker filter not located")
        return
    f, m, elem, coll, info = res
    # the filtered collection, as a term of build_scopes
    ct = term(f, coll)
    if f is not bs:
        names = {x.id for x in ast.walk(expand(f, coll)) if isinstance(x, ast.Name)} & set(info["amap"])
        if len(names) != 1:
            raise AnalysisError(f"{f.site(m)}: the filtered collection {ct[:50]} is not a parameter")
        ct = term(bs, info["amap"][names.pop()])
    site = bs.site(info["call"]) if f is not bs else f.site(m)
    if "_build_scopes_from_headers_and_blocks(" in ct:
        ctx.ok("R4", site, "build_scopes: marker filter applied to the result of _build_scopes_from_headers_and_blocks")
    else:
        ctx.viol("R4", "build_scopes/filter-position", site,
                 f"the marker filter is applied to {ct[:80]} instead of the paired scopes: removing a header before pairing leaves its block "
                 f"unclaimed, and a neighbouring header without a block of its own picks it up (phantom function with the marked function's span)")
    nest = [c for c in bs.calls() if (attr_chain(c.func) or "") in ("fold_scopes", "filter_scopes_nested_functions")]
    mt = unparse(m)
    for c in nest:
        a = term(bs, c.args[0]) if c.args else ""
        filtered = (f is not bs and f"{f.name}(" in a) or (f is bs and (mt in a or _filled_under(bs, c.args[0], m)))
        if filtered:
            ctx.ok("R4", bs.site(c), f"build_scopes: {attr_chain(c.func)} receives the filtered scopes")
        else:
            ctx.viol("R4", f"build_scopes/{attr_chain(c.func)}-input", bs.site(c), f"{attr_chain(c.func)} receives {a[:60]}, not the marker-filtered scopes: marked functions are reported, or are filtered after nesting re-parented their neighbours")
    if not nest:
        ctx.ok("R4", bs.site(), "build_scopes: nesting is fused with the marker filter (no separate nesting call)")


def _filled_under(bs, arg, m) -> bool:
    """arg names a list that is appended to under the marker test m"""
    from ..core import atoms_at
    if not isinstance(arg, ast.Name):
        return False
    names, todo = set(), [arg.id]
    while todo:
        nme = todo.pop()
        if nme in names:
            continue
        names.add(nme)
        for v, _ in local_defs(bs, nme):
            if isinstance(v, ast.Name):
                todo.append(v.id)
    for c in bs.calls():
        if isinstance(c.func, ast.Attribute) and c.func.attr == "append" and isinstance(c.func.value, ast.Name) and c.func.value.id in names:
            if any(a is m for a, _ in atoms_at(bs, c)):
                return True
    return False


def run(ctx, prj: Project):
    ctx.explanation = (
        "Which comments qualify is decided on every path of the predicate by symbolic substitution (token.value -> case "
        "folding -> leader slice of the leader's length -> strip -> startswith('nocl')); which line counts by the "
        "provenance of the filter condition (name token's line); visibility of the marker (raw tokens; the lex constant is "
        "C12-R3); position of the filter between pairing and nesting. That unmarked neighbours keep name, span and length "
        "for all programs inherits C01's undecided main clause.")
    ctx.not_decided = ["every other function keeps its name, span and length for all programs (inherits C01's main clause)"]
    ctx.trust("CPython ast", "str.startswith/lower/strip semantics")
    rule_R1(ctx, prj)
    from . import c01
    if not c01.rule_R5_pipeline(ctx, prj, rid="R5", clauses={"functions", "reported-twice", "length", "span-start", "span-end", "order"}):
        res = rule_R2(ctx, prj)
        rule_R3(ctx, prj)
        rule_R4(ctx, prj, res)
