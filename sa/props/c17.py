"""C17 - The suppression marker removes exactly the marked function (which comments qualify, which line counts, where the filter sits)."""
from __future__ import annotations

import ast

from ..core import (AnalysisError, FuncInfo, Project, attr_chain, const_int, const_str, expand, guards_of, local_defs,
                    term, unparse)
from ..paths import atoms_of, chain_ops, enumerate_paths

SU = "codelimit.common.source_utils"
SCU = "codelimit.common.scope.scope_utils"
MARKER = "nocl"


def _predicate_of(prj, fi: FuncInfo):
    """(param name, statements) of the per-token predicate used by filter_nocl_comment_tokens:
    a nested function, or the condition of the returned comprehension."""
    rets = [r for r in fi.node.body if isinstance(r, ast.Return)]
    if not rets or not isinstance(rets[-1].value, ast.ListComp):
        raise AnalysisError(f"{fi.disp}: does not return a filtering list comprehension")
    comp = rets[-1].value
    g = comp.generators[0]
    if not (isinstance(comp.elt, ast.Name) and isinstance(g.target, ast.Name) and comp.elt.id == g.target.id and len(g.ifs) == 1):
        raise AnalysisError(f"{fi.disp}: comprehension is not `[t for t in tokens if <predicate>]`")
    cond = g.ifs[0]
    if isinstance(cond, ast.Call) and isinstance(cond.func, ast.Name) and cond.func.id in fi.nested and len(cond.args) == 1:
        sub = fi.nested[cond.func.id]
        return sub.params()[0], sub.node.body, sub
    # inline condition: wrap as a single return
    return g.target.id, [ast.Return(value=cond)], fi


def rule_R1(ctx, prj):
    ctx.rule("R1", "a comment qualifies exactly when, on every path of the predicate: the token is a comment; the tested text "
                   "is case-folded; a recognised leader is removed by a slice of exactly its length and the rest is stripped; "
                   "and the final test is a PREFIX test (startswith) against the literal 'nocl' - not containment, not a "
                   "search, and not before case folding", floor=3)
    fi = prj.func(f"{SU}:filter_nocl_comment_tokens")
    tok, body, owner = _predicate_of(prj, fi)
    paths = enumerate_paths(body)
    accepting = 0
    for p in paths:
        if p.ret is None:
            continue
        r = p.ret
        if isinstance(r, ast.Constant) and r.value in (False, None):
            continue
        accepting += 1
        # flatten `a and b` returns: every conjunct is an assumption, the last one the marker test
        conj = [r]
        if isinstance(r, ast.BoolOp) and isinstance(r.op, ast.And):
            conj = list(r.values)
        assumes = list(p.assumes) + [(c, True) for c in conj[:-1]]
        final = conj[-1]
        key_base = "filter_nocl_comment_tokens"
        # (a) comment only
        is_comment = any(pol and unparse(t) == f"{tok}.is_comment()" for t, pol in assumes) or \
            any(pol and not dis and unparse(a) == f"{tok}.is_comment()" for t, tp in assumes for a, pol, dis in atoms_of(t, tp))
        if not is_comment:
            ctx.viol("R1", f"{key_base}/not-only-comments", owner.site(), f"a token can qualify without being a comment (path assumptions: {[unparse(t) for t, _ in assumes][:3]})")
            continue
        # (c) final test
        if not (isinstance(final, ast.Call) and isinstance(final.func, ast.Attribute)):
            ctx.viol("R1", f"{key_base}/final-test", owner.site(), f"the marker test is {unparse(final)[:80]}; required <text>.startswith('nocl')")
            continue
        if final.func.attr != "startswith":
            how = "anywhere in the comment" if final.func.attr in ("search", "find", "__contains__", "count", "index", "findall") else f"with .{final.func.attr}()"
            ctx.viol("R1", f"{key_base}/not-a-prefix-test", owner.site(),
                     f"the marker is looked for {how} ({unparse(final)[:70]}): a comment that merely mentions '# nocl' later in its text suppresses the function")
            continue
        lit = const_str(final.args[0]) if final.args else None
        if lit != MARKER:
            ctx.viol("R1", f"{key_base}/marker-literal", owner.site(), f"the prefix tested is {lit!r}; required 'nocl' (lower case, compared after case folding)")
            continue
        base, ops = chain_ops(final.func.value)
        names = [o[1] if o[0] == "call" else o[0] for o in ops]
        if base != f"{tok}.value":
            ctx.viol("R1", f"{key_base}/tested-text", owner.site(), f"the text tested is derived from {base}, not from the comment token's text")
            continue
        # leader taken on this path?
        leaders = []
        for t, pol in assumes:
            for a, apol, dis in atoms_of(t, pol):
                if isinstance(a, ast.Call) and isinstance(a.func, ast.Attribute) and a.func.attr == "startswith" and a.args and const_str(a.args[0]) is not None \
                        and const_str(a.args[0]) != MARKER:
                    if apol:
                        leaders.append(const_str(a.args[0]))
        which = "/".join(sorted(set(leaders))) or "no leader"
        key = f"{key_base}/path[{which}]"
        if not any(n in ("lower", "casefold") for n in names):
            ctx.viol("R1", key + "/case", owner.site(), f"on the path for {which} the text is tested without case folding ({unparse(final.func.value)[:70]}): "
                     f"'NOCL' / 'NoCl' do not suppress there, while they do for other comment styles")
            continue
        if leaders:
            sl = [o for o in ops if o[0] == "slice"]
            k = const_int(sl[0][1]) if sl and sl[0][1] is not None else None
            lens = {len(l) for l in leaders}
            if not sl or sl[0][2] is not None or lens != {k}:
                ctx.viol("R1", key + "/leader-length", owner.site(), f"the leader(s) {sorted(set(leaders))} (length {sorted(lens)}) are removed by the slice "
                         f"[{k}:]: the rest no longer starts at the marker")
                continue
            idx_slice = ops.index(sl[0])
            if not any(o[0] == "call" and o[1] == "strip" for o in ops[idx_slice + 1:]):
                ctx.viol("R1", key + "/strip", owner.site(), "whitespace after the comment leader is not stripped before the prefix test: '# nocl' does not qualify")
                continue
        else:
            if any(o[0] == "slice" for o in ops):
                ctx.viol("R1", key + "/slice-without-leader", owner.site(), "text is sliced although no leader was recognised on this path")
                continue
        ctx.ok("R1", owner.site(), f"{key}: {tok}.value -> {' -> '.join(names) or 'as is'} -> startswith('nocl')")
    if accepting == 0:
        ctx.viol("R1", "filter_nocl_comment_tokens/no-accepting-path", owner.site(), "no path of the predicate can accept a comment: the marker never suppresses")


def rule_R2(ctx, prj):
    ctx.rule("R2", "a scope is dropped iff the line of its header's NAME token is among the lines of the marker tokens; the "
                   "filter is pure (new list, scopes untouched)", floor=2)
    bs = prj.func(f"{SCU}:build_scopes")
    calls = [c for c in bs.calls() if (attr_chain(c.func) or "").startswith("_filter_nocl")]
    if len(calls) != 1:
        raise AnalysisError(f"build_scopes: expected one _filter_nocl_* call, found {len(calls)}")
    tg, _ = prj.resolve_call(bs, calls[0])
    f = tg[0]
    rets = [r for r in f.walk() if isinstance(r, ast.Return) and r.value is not None]
    comps = [r.value for r in rets if isinstance(r.value, ast.ListComp)]
    if not comps:
        raise AnalysisError(f"{f.disp}: no filtering comprehension returned")
    for comp in comps:
        g = comp.generators[0]
        s = unparse(g.target)
        cond = g.ifs[0] if len(g.ifs) == 1 else None
        ok = False
        detail = unparse(cond) if cond is not None else "no condition"
        if isinstance(cond, ast.Compare) and len(cond.ops) == 1 and isinstance(cond.ops[0], ast.NotIn):
            left = unparse(cond.left)
            right = expand(f, cond.comparators[0])
            want_left = (f"{s}.header.name_token.location.line", f"{s}.name_token.location.line")
            lines_ok = isinstance(right, (ast.ListComp, ast.SetComp, ast.GeneratorExp)) and unparse(right.elt).endswith(".location.line") \
                and unparse(right.generators[0].iter) in f.params()
            if isinstance(right, ast.Call) and attr_chain(right.func) in ("set", "frozenset", "list") and right.args:
                r2 = right.args[0]
                lines_ok = isinstance(r2, (ast.ListComp, ast.GeneratorExp)) and unparse(r2.elt).endswith(".location.line")
            if left in want_left and lines_ok:
                ok = True
            elif lines_ok:
                detail = f"compares {left} with the marker lines"
        if ok:
            ctx.ok("R2", f.site(comp), f"{f.local}: kept iff name_token.location.line not in marker lines")
        else:
            ctx.viol("R2", f"{f.local}/which-line", f.site(comp),
                     f"a function is dropped by the test `{detail[:100]}`; required: exactly when the line of its header's name token is a marker line "
                     f"(a marker on a continuation line of the header, on the block's first line or elsewhere must not suppress)")
    muts = [n for n in f.walk() if isinstance(n, (ast.Assign, ast.AugAssign)) and any(isinstance(t, ast.Attribute) for t in (n.targets if isinstance(n, ast.Assign) else [n.target]))]
    if muts:
        ctx.viol("R2", f"{f.local}/impure", f.site(muts[0]), "the marker filter modifies scopes instead of only selecting them")
    else:
        ctx.ok("R2", f.site(), f"{f.local}: pure filter")
    return f, calls[0]


def rule_R3(ctx, prj):
    ctx.rule("R3", "the marker list is computed from the RAW token list handed to build_scopes (comments included), not from "
                   "the comment-free list", floor=1)
    bs = prj.func(f"{SCU}:build_scopes")
    raw = bs.params()[0]
    calls = [c for c in bs.calls() if prj.resolve_callee_name(bs, c).endswith(":filter_nocl_comment_tokens")]
    if not calls:
        raise AnalysisError("build_scopes no longer computes the marker tokens")
    for c in calls:
        a = term(bs, c.args[0])
        if a == raw:
            ctx.ok("R3", bs.site(c), f"build_scopes: markers = filter_nocl_comment_tokens({raw}) on the raw tokens")
        else:
            ctx.viol("R3", "build_scopes/marker-source", bs.site(c), f"markers are computed from {a[:70]}: comment tokens have already been filtered out there, so no marker is ever found")


def rule_R4(ctx, prj, f, call):
    ctx.rule("R4", "the marker filter is applied to the finished flat scope list (after header/block pairing) and its result is "
                   "what nesting (fold_scopes / filter_scopes_nested_functions) receives", floor=2)
    bs = prj.func(f"{SCU}:build_scopes")
    arg = expand(bs, call.args[0])
    if isinstance(arg, ast.Call) and prj.resolve_callee_name(bs, arg).endswith(":_build_scopes_from_headers_and_blocks"):
        ctx.ok("R4", bs.site(call), "build_scopes: marker filter applied to the result of _build_scopes_from_headers_and_blocks")
    else:
        ctx.viol("R4", "build_scopes/filter-position", bs.site(call),
                 f"the marker filter is applied to {unparse(arg)[:80]} instead of the paired scopes: removing a header before pairing leaves its block "
                 f"unclaimed, and a neighbouring header without a block of its own picks it up (phantom function with the marked function's span)")
    # result flows into both nesting functions
    res_name = None
    par = bs.parents.get(call)
    if isinstance(par, ast.Assign) and isinstance(par.targets[0], ast.Name):
        res_name = par.targets[0].id
    nest = [c for c in bs.calls() if (attr_chain(c.func) or "") in ("fold_scopes", "filter_scopes_nested_functions")]
    if not nest:
        raise AnalysisError("build_scopes: nesting calls not found")
    for c in nest:
        a = unparse(c.args[0])
        if res_name is not None and a == res_name or unparse(expand(bs, c.args[0])) == unparse(expand(bs, call)):
            ctx.ok("R4", bs.site(c), f"build_scopes: {attr_chain(c.func)} receives the filtered scopes")
        else:
            ctx.viol("R4", f"build_scopes/{attr_chain(c.func)}-input", bs.site(c), f"{attr_chain(c.func)} receives {a}, not the marker-filtered scopes: marked functions are reported, or are filtered after nesting re-parented their neighbours")


def run(ctx, prj: Project):
    ctx.explanation = (
        "Which comments qualify is decided on every path of the predicate by symbolic substitution (token.value -> case "
        "folding -> leader slice of the leader's length -> strip -> startswith('nocl')); which line counts by the "
        "provenance of the filter condition (name token's line); visibility of the marker (raw tokens; the lex constant is "
        "C12-R3); position of the filter between pairing and nesting. That unmarked neighbours keep name, span and length "
        "for all programs inherits C01's undecided main clause.")
    ctx.not_decided = ["every other function keeps its name, span and length for all programs (inherits C01's main clause)"]
    ctx.trust("CPython ast", "str.startswith/lower/strip semantics")
    rule_R1(ctx, prj)
    f, call = rule_R2(ctx, prj)
    rule_R3(ctx, prj)
    rule_R4(ctx, prj, f, call)
