"""C09 - Cache-assisted scans equal fresh scans over any edit history (reuse discipline)."""
from __future__ import annotations

import ast

from ..core import (AnalysisError, FuncInfo, Project, attr_chain, body_exits, const_str, enclosing, expand, guards_of,
                    local_defs, term, unparse, atoms_at, implied_atoms)
from ..inline import baseline_names
from . import c08

SC = "codelimit.common.Scanner"


def _flat_conj(test, pol=True):
    """atoms known to hold when (test == pol)"""
    if isinstance(test, ast.UnaryOp) and isinstance(test.op, ast.Not):
        return _flat_conj(test.operand, not pol)
    if isinstance(test, ast.BoolOp):
        if isinstance(test.op, ast.And) == pol:
            out = []
            for v in test.values:
                out += _flat_conj(v, pol)
            return out
        return []
    return [(test, pol)]


def rule_R1(ctx, prj):
    ctx.rule("R1", "a cached entry's fields are reused only under the guard cached.checksum() == "
                   "calculate_checksum(<file being scanned>), the cached entry is looked up under the same "
                   "root-relative path the new entry is stored under (and under no other key), and every other file "
                   "is analysed", floor=2)
    fi = prj.func(f"{SC}:_scan_file")
    ps = fi.params()
    root_p, path_p, cache_p = ps[2], ps[3], ps[4]
    # names that hold a cached entry: defined from <cache>.codebase.files[...] / .get(...)
    cached_names = {}
    for n in fi.walk():
        if isinstance(n, ast.Assign) and len(n.targets) == 1 and isinstance(n.targets[0], ast.Name):
            v = n.value
            if isinstance(v, ast.IfExp):        # X.get(k) if cached_report else None
                nn = [b for b in (v.body, v.orelse) if not (isinstance(b, ast.Constant) and b.value is None)]
                if len(nn) == 1:
                    v = nn[0]
            txt = term(fi, v)
            if isinstance(v, ast.Subscript) and term(fi, v.value).endswith(".codebase.files") and cache_p in txt:
                cached_names.setdefault(n.targets[0].id, []).append(("key", v.slice, n))
            elif isinstance(v, ast.Call) and isinstance(v.func, ast.Attribute) and v.func.attr == "get" \
                    and term(fi, v.func.value).endswith(".codebase.files") and cache_p in txt and v.args:
                cached_names.setdefault(n.targets[0].id, []).append(("key", v.args[0], n))
        # for-loop / comprehension search over the cached files: another way to pick an entry
        if isinstance(n, (ast.For, ast.comprehension)) and cache_p in term(fi, n.iter) and "files" in term(fi, n.iter):
            for t in ast.walk(n.target):
                if isinstance(t, ast.Name):
                    cached_names.setdefault(t.id, []).append(("search", n.iter, n))
    if not cached_names:
        raise AnalysisError("_scan_file: no lookup of a cached entry found")
    # propagate through simple copies / next(...) over searches
    changed = True
    while changed:
        changed = False
        for n in fi.walk():
            if isinstance(n, ast.Assign) and len(n.targets) == 1 and isinstance(n.targets[0], ast.Name):
                used = {x.id for x in ast.walk(n.value) if isinstance(x, ast.Name)} & set(cached_names)
                tgt = n.targets[0].id
                plain = isinstance(n.value, (ast.Name, ast.IfExp)) or (isinstance(n.value, ast.Call) and attr_chain(n.value.func) in ("next", "min", "max"))
                if used and plain:
                    for u in used:
                        for kind, k, st in cached_names[u]:
                            ent = ("search" if kind == "search" else kind, k, n)
                            if tgt not in cached_names or all(e[2] is not n for e in cached_names[tgt]):
                                if tgt != u:
                                    cached_names.setdefault(tgt, []).append(ent)
                                    changed = True
    want_key = {f"relpath({path_p}, {root_p})", f"os.path.relpath({path_p}, {root_p})"}
    for name, defs in sorted(cached_names.items()):
        for kind, k, st in defs:
            if kind == "key":
                if term(fi, k) in want_key:
                    ctx.ok("R1", fi.site(st), f"_scan_file: {name} = cached files[relpath({path_p}, {root_p})]")
                else:
                    ctx.viol("R1", f"_scan_file/lookup-key/{name}", fi.site(st),
                             f"the cached entry is looked up under {term(fi, k)}; required the file's own root-relative path relpath({path_p}, {root_p})")
            elif kind == "search":
                ctx.viol("R1", f"_scan_file/lookup-by-search/{name}", fi.site(st),
                         f"a cached entry is chosen by searching the cached files ({unparse(k)[:60]}) instead of by this file's path: results "
                         f"recorded for another path (other name, other language) can be reused")
    # every SourceFileEntry built from fields of a cached entry must be under the checksum guard
    ctors = [c for c in fi.calls() if attr_chain(c.func) == "SourceFileEntry"]
    reuse = []
    for c in ctors:
        used = set()
        for a in list(c.args) + [k.value for k in c.keywords]:
            used |= {x.id for x in ast.walk(a) if isinstance(x, ast.Name)} & set(cached_names)
        if used:
            reuse.append((c, used))
    if not reuse:
        raise AnalysisError("_scan_file: no reuse of a cached entry found (cache path rewritten?)")
    for c, used in reuse:
        atoms = atoms_at(fi, c)
        ok = False
        all_cached = set(cached_names)
        for t, pol in atoms:
            if isinstance(t, ast.Compare) and len(t.ops) == 1 and isinstance(t.ops[0], (ast.Eq, ast.NotEq)) and (isinstance(t.ops[0], ast.Eq) == pol):
                l, r = term(fi, t.left), term(fi, t.comparators[0])
                sides = {l, r}
                raw = {unparse(t.left), unparse(t.comparators[0])}
                cs = {f"{u}.checksum()" for u in all_cached}
                if (sides | raw) & cs and f"calculate_checksum({path_p})" in sides:
                    ok = True
        if ok:
            ctx.ok("R1", fi.site(c), f"_scan_file: reuse of {sorted(used)} guarded by checksum() == calculate_checksum({path_p})")
        else:
            ctx.viol("R1", "_scan_file/reuse-unguarded", fi.site(c),
                     f"measurements of the cached entry {sorted(used)} are reused without the dominating test "
                     f"`<cached>.checksum() == calculate_checksum({path_p})`: a modified file keeps its old results")
    # the other branch analyses
    an = [c for c in fi.calls() if prj.resolve_callee_name(fi, c).endswith(":_analyze_file")]
    if an:
        ctx.ok("R1", fi.site(an[0]), "_scan_file: files without a valid cached entry are analysed (_analyze_file)")
    else:
        ctx.viol("R1", "_scan_file/no-analysis", fi.site(), "_scan_file no longer analyses files that have no valid cached entry")


def rule_R2(ctx, prj):
    ctx.rule("R2", "the cached report is used only when it was written by the running version: the report returned by "
                   "_read_cached_report is dominated by a comparison of the document's version with Report.VERSION, and "
                   "the compared value really comes from the document (reader restores it, C08-R3)", floor=1)
    fi = prj.func("codelimit.commands.scan:_read_cached_report")
    rets = [r for r in fi.walk() if isinstance(r, ast.Return) and r.value is not None
            and not (isinstance(r.value, ast.Constant) and r.value.value is None)]
    if not rets:
        raise AnalysisError("_read_cached_report returns no report")
    sites = []
    for r in rets:
        v = r.value
        if isinstance(v, ast.IfExp):
            for br in (v.body, v.orelse):
                if not (isinstance(br, ast.Constant) and br.value is None):
                    sites.append((r, br))
        else:
            sites.append((r, r))
    for r, node in sites:
        atoms = atoms_at(fi, node)
        via_attr = via_doc = False
        for t, pol in atoms:
            if isinstance(t, ast.Compare) and len(t.ops) == 1:
                l, rr = unparse(t.left), unparse(t.comparators[0])
                eq = isinstance(t.ops[0], ast.Eq) == pol and isinstance(t.ops[0], (ast.Eq, ast.NotEq))
                if eq and "Report.VERSION" in (l, rr):
                    other = rr if l == "Report.VERSION" else l
                    if other.endswith(".version"):
                        via_attr = True
                    if "get_report_version(" in term(fi, ast.parse(other, mode="eval").body):
                        via_doc = True
        if via_doc:
            ctx.ok("R2", fi.site(r), "_read_cached_report: returned only if get_report_version(text) == Report.VERSION")
        elif via_attr:
            ctx.ok("R2", fi.site(r), "_read_cached_report: returned only if cached.version == Report.VERSION")
            # the attribute must be restored by the reader
            class Probe:
                def __init__(self):
                    self.bad = []
                    self.rules, self.instances = {}, {}
                def rule(self, *a, **k): pass
                def ok(self, *a, **k): pass
                def viol(self, rid, key, site, msg, **k):
                    self.bad.append((key, site, msg))
            pr = Probe()
            from ..jsonio import Reader, Writer
            c08.rule_R3(pr, prj, Writer(prj), Reader(prj))
            vb = [b for b in pr.bad if b[0] == "from_json/version"]
            if vb:
                ctx.viol("R2", "_read_cached_report/version-guard-ineffective", vb[0][1],
                         "the version guard compares cached.version, but ReportReader.from_json does not restore that field "
                         "faithfully from the document: the guard compares the running version with itself and a cache written by any "
                         "other version is reused")
            else:
                ctx.ok("R2", fi.site(r), "cached.version is restored from the document by ReportReader.from_json")
        else:
            ctx.viol("R2", "_read_cached_report/no-version-guard", fi.site(r),
                     "a cached report is returned without a dominating comparison of its version with Report.VERSION")


WHO_FROM_JSON = {
    "codelimit.commands.scan:_read_cached_report": "scan cache (version guard: R2)",
    "codelimit.utils:read_report": "report / findings (version refusal: R3)",
    "codelimit.utils:read_cached_report": "unused helper",
    "codelimit.commands.upload:upload_command": "upload (outside the property)",
}


def rule_R3(ctx, prj, structural_reader=True):
    ctx.rule("R3", "report and findings obtain every report (also the --diff one) only through utils.read_report, where "
                   "parsing is dominated by get_report_version(...) != Report.VERSION -> typer.Exit; who-may-call table "
                   "for ReportReader.from_json", floor=4 if structural_reader else 2)
    rr = prj.func("codelimit.utils:read_report")
    fj = [c for c in rr.calls() if prj.resolve_callee_name(rr, c).endswith(":ReportReader.from_json")] if structural_reader else []
    if not fj and structural_reader:
        raise AnalysisError("utils.read_report no longer calls ReportReader.from_json")
    for c in fj:
        atoms = []
        for g in guards_of(rr, c):
            atoms += _flat_conj(g.test, g.polarity)
        ok = False
        for t, pol in atoms:
            if isinstance(t, ast.Compare) and len(t.ops) == 1 and isinstance(t.ops[0], (ast.Eq, ast.NotEq)):
                eq = isinstance(t.ops[0], ast.Eq) == pol
                l, r = term(rr, t.left), term(rr, t.comparators[0])
                if eq and "Report.VERSION" in (l, r) and "get_report_version(" in (l + r):
                    ok = True
        if ok:
            ctx.ok("R3", rr.site(c), "read_report: from_json only after get_report_version(text) == Report.VERSION (else typer.Exit)")
        else:
            ctx.viol("R3", "read_report/version-refusal", rr.site(c), "read_report parses a report without first refusing documents of another version")
    # the refusal must leave through typer.Exit
    exits = [n for n in rr.walk() if isinstance(n, ast.Raise) and "Exit" in unparse(n.exc)]
    if not structural_reader:
        pass
    elif len(exits) >= 2:
        ctx.ok("R3", rr.site(exits[-1]), "read_report: missing report and version mismatch both raise typer.Exit")
    else:
        ctx.viol("R3", "read_report/exit", rr.site(), "read_report does not raise typer.Exit on a version mismatch")
    for q in ("codelimit.commands.report:report_command", "codelimit.commands.findings:findings_command"):
        f = prj.func(q)
        direct = [c for c in f.calls() if "from_json" in unparse(c.func) or "read_cached_report" in unparse(c.func)]
        viaread = [c for c in f.calls() if prj.resolve_callee_name(f, c).endswith(":read_report")]
        if direct:
            ctx.viol("R3", f"{f.local}/bypass", f.site(direct[0]), f"{f.local} reads a report without the version check of read_report: {unparse(direct[0])[:60]}")
        elif viaread:
            ctx.ok("R3", f.site(viaread[0]), f"{f.local}: {len(viaread)} report(s) obtained through read_report")
        else:
            raise AnalysisError(f"{f.disp}: no report is read")
    base = baseline_names()
    callers, todo, seen = set(), list(prj.callgraph.callers_of("codelimit.common.report.ReportReader:ReportReader.from_json")), set()
    while todo:
        cq = todo.pop()
        if cq in seen:
            continue
        seen.add(cq)
        if cq not in base and cq not in WHO_FROM_JSON and prj.callgraph.callers_of(cq):
            todo.extend(prj.callgraph.callers_of(cq))     # a newly extracted helper: judge its callers instead
        else:
            callers.add(cq)
    scan_side = prj.callgraph.reachable(["codelimit.commands.scan:scan_command"]) if not structural_reader else set()
    for cq in sorted(callers):
        if cq in WHO_FROM_JSON:
            ctx.ok("R3", prj.funcs[cq].site(), f"from_json caller {cq.split(':')[1]}: {WHO_FROM_JSON[cq]}")
        elif cq in scan_side:
            # a reader on the scan command's own path: what the scan does with documents of other versions was evaluated (R5)
            ctx.ok("R3", prj.funcs[cq].site(), f"from_json caller {cq.split(':')[1]}: part of the scan command, whose use of the cache is evaluated (R5)")
        else:
            ctx.viol("R3", f"from_json<-{cq.split(':')[1]}", prj.funcs[cq].site(),
                     f"{cq} parses reports outside the version-checked readers (who-may-call table)")


def rule_R4(ctx, prj):
    ctx.rule("R4", "the scan result is rebuilt from the directory walk: scan_path returns a Codebase constructed in that "
                   "call, and the cached report is only read (never returned, merged into the result or modified)", floor=2)
    fi = prj.func(f"{SC}:scan_path")
    rets = [r for r in fi.walk() if isinstance(r, ast.Return) and r.value is not None]
    ok = bool(rets)
    for r in rets:
        t = expand(fi, r.value)
        if not (isinstance(t, ast.Call) and attr_chain(t.func) == "Codebase"):
            ok = False
    cache_p = fi.params()[1]
    if ok:
        ctx.ok("R4", fi.site(rets[0]), "scan_path returns the Codebase it constructed")
    else:
        ctx.viol("R4", "scan_path/result", fi.site(), "scan_path does not return a freshly constructed Codebase (files that vanished from disk would survive from the cache)")
    bad = []
    for q in (f"{SC}:scan_path", f"{SC}:_scan_file", f"{SC}:scan_codebase"):
        f = prj.func(q)
        names = [p for p in f.params() if "cached" in p]
        for n in f.walk():
            if isinstance(n, ast.Call) and isinstance(n.func, ast.Attribute) and n.func.attr in ("add_file", "update", "pop", "clear", "aggregate", "setdefault") \
                    and any(unparse(n.func.value).startswith(p) for p in names):
                bad.append((f, n))
            if isinstance(n, (ast.Assign, ast.AugAssign)):
                tg = n.targets if isinstance(n, ast.Assign) else [n.target]
                for t in tg:
                    if isinstance(t, (ast.Attribute, ast.Subscript)) and any(unparse(t).startswith(p + ".") for p in names):
                        bad.append((f, n))
            if isinstance(n, ast.Return) and n.value is not None and any(unparse(n.value).startswith(p) for p in names):
                bad.append((f, n))
    if bad:
        f, n = bad[0]
        ctx.viol("R4", f"{f.local}/cache-mutated", f.site(n), f"the cached report is modified or returned: {unparse(n)[:70]}")
    else:
        ctx.ok("R4", fi.site(), "cached report is only read in scan_codebase / scan_path / _scan_file")


def rule_R5_evaluated(ctx, prj) -> bool:
    from ..absint import PyRaise, Unknown
    from .. import cache_eval as CE
    ctx.rule("R5", "the cache evaluated: scan_path with a cached report reuses exactly the entry stored under the file's own "
                   "root-relative path whose checksum equals the file's (loc and measurements taken over, the file not read), "
                   "analyses every other file again (changed checksum; same bytes recorded under another path), drops entries of "
                   "files that are gone or excluded, returns a new codebase and leaves the cached one untouched; "
                   "scan_command (interpreted end to end) takes entries from the cache only for a document of the running version "
                   "(another version, a patch release, trailing blank, no version key, version null, not JSON, absent file: every "
                   "source file is read again); read_report returns the report of the running "
                   "version and leaves through typer.Exit otherwise", floor=10)
    sf = prj.maybe_func(f"{SC}:_scan_file") or prj.func(f"{SC}:scan_path")
    rc = prj.func("codelimit.commands.scan:scan_command")
    rr = prj.func("codelimit.utils:read_report")
    try:
        out, read, (before, after), same = CE.cached_scan(prj)
        checks = [
            ("a.py", (99, [55, 44]), "the unchanged file a.py takes over the cached line total 99 and measurements [55, 44]", "reuse"),
            ("d.js", (47, [40, 7]), "d.js, whose cached checksum differs from the file's, is analysed again", "stale-reuse"),
            ("sub/s.py", (47, [40, 7]), "sub/s.py is analysed again although an entry with its checksum is cached under the key 's.py'", "lookup-by-search"),
        ]
        for key, want, what, kind in checks:
            got = out.get(key)
            if got is None:
                ctx.viol("R5", f"_scan_file/{kind}/missing", sf.site(), f"{key} is missing from the result of a cache-assisted scan")
            elif (got[0], got[1]) != want:
                ctx.viol("R5", f"_scan_file/{kind}", sf.site(), f"cache-assisted scan: {key} gets line total {got[0]} and measurements {got[1]}; required {want[0]} and {want[1]} ({what})")
            else:
                ctx.ok("R5", sf.site(), what)
        for gone in ("ghost.py", "skip.py", "s.py"):
            if gone in out:
                ctx.viol("R5", "scan_path/cached-entry-kept", sf.site(), f"the cached entry {gone} (file gone, excluded or never at that path) appears in the result of the new scan")
            else:
                ctx.ok("R5", sf.site(), f"cached entry {gone} is not carried over")
        if "/w/proj/a.py" in read:
            ctx.viol("R5", "_scan_file/reused-but-read", sf.site(), "a.py is read and analysed although its cached entry is reused")
        if same or before != after:
            ctx.viol("R5", "scan_path/result-is-cache", prj.func(f"{SC}:scan_path").site(), "the scan returns or modifies the cached codebase instead of building a new one "
                     f"(cached keys before {before}, after {after})")
        else:
            ctx.ok("R5", sf.site(), "the result is a new codebase; the cached one is unchanged")
        docs = CE.cache_documents(prj)
        docs["absent file"] = None
        from .. import scan_eval as SE
        first = SE.scan(prj, SE.State())
        for case, text in docs.items():
            # observed on the command itself: does a scan with this document in the cache read the source files again?
            if text is not None and case != "not JSON":
                import json as _json
                d0 = _json.loads(first.state.texts[SE.DOC])
                d1 = _json.loads(text)
                for k in ("version",):
                    if k in d1:
                        d0[k] = d1[k]
                    else:
                        d0.pop(k, None)
                text_ = _json.dumps(d0)
            else:
                text_ = text
            got = SE.cache_use(prj, text_, first)
            want = "used" if case == "running version" else "ignored"
            if got == want:
                ctx.ok("R5", rc.site(), f"scan with a cache document of {case}: cache {got}")
            else:
                ctx.viol("R5", f"_read_cached_report/{case.replace(' ', '-')}", rc.site(), f"with a cache document of {case} the scan has the cache {got}; required {want}"
                         + (": results recorded by another version of the tool (or of unknown origin) are reused" if got in ("used", "partly used") else ""))
            if case == "not JSON":
                continue
            got = CE.read_report(prj, text)
            want = "report" if case == "running version" else "exit"
            if got == want:
                ctx.ok("R5", rr.site(), f"read_report, {case}: {got}")
            else:
                ctx.viol("R5", f"read_report/{case.replace(' ', '-')}", rr.site(), f"for a report with {case} read_report gives {got}; required {want}"
                         + (": report / findings display a report written by another version" if got == "report" else ""))
    except (Unknown, PyRaise) as e:
        ctx.info(f"cache not evaluable ({type(e).__name__}: {e}); structural rules decide")
        ctx.rule("R5", "cache not evaluable by the interpreter: structural rules R1-R4 decide", floor=0)
        ctx.violations[:] = [v for v in ctx.violations if v.rule != "R5"]
        return False
    return True


def run(ctx, prj: Project):
    ctx.explanation = (
        "Reuse discipline behind C09, decided structurally: provenance of the cached entry (same root-relative key, no "
        "search), dominance of every reuse by the checksum comparison against calculate_checksum of the scanned file, "
        "effectiveness of the version guard (including that the compared field is restored by the reader), version "
        "refusal in read_report with a who-may-call table for from_json, and that the result is rebuilt from the walk. "
        "Equality of cached and fresh reports over all edit histories is NOT decided by this family.")
    ctx.not_decided = ["equality of cache-assisted and from-scratch reports over all finite edit histories"]
    ctx.trust("md5 of the complete file bytes identifies content (collisions ignored)", "CPython ast")
    if rule_R5_evaluated(ctx, prj):
        rule_R3(ctx, prj, structural_reader=False)      # who obtains reports how stays a call-graph rule
        return
    rule_R1(ctx, prj)
    rule_R2(ctx, prj)
    rule_R3(ctx, prj)
    rule_R4(ctx, prj)
