"""C02 - Length thresholds and the refactoring alarm are applied consistently."""
from __future__ import annotations

import ast
from typing import Optional

from ..core import AnalysisError, FuncInfo, Project, attr_chain, const_int, const_str, expand, unparse, walk_local
from ..absint import MiniInterp, PyRaise, Sym, Unknown
from ..order import list_value_order
from ..intdec import (CAT_NAMES, SPEC_CUTS, LengthFacts, category, closure_int_literals, fmt_regions, literals_compared,
                      regions, residual, residual_multi, sample_points, reachable_int_literals)

SUBJ = "<length>"

# ----------------------------------------------------------------------------
# label extractors: residual tree -> what this site decides for the length v
# ----------------------------------------------------------------------------


def _resolve_local_const(tree, name: str):
    vals = []
    for n in ast.walk(tree):
        if isinstance(n, ast.Assign) and any(isinstance(t, ast.Name) and t.id == name for t in n.targets):
            vals.append(n.value)
    if len(vals) == 1:
        return vals[0]
    return None


def lab_profile_cells(pred):
    """(index, term) of every `<list>[index] += term` executed for this length."""
    def f(tree, v):
        out = []
        for n in ast.walk(tree):
            if isinstance(n, ast.AugAssign) and isinstance(n.target, ast.Subscript):
                idx = n.target.slice
                if isinstance(idx, ast.Name):
                    idx = _resolve_local_const(tree, idx.id) or idx
                i = const_int(idx)
                term = SUBJ if pred(n.value) else unparse(n.value)
                op = type(n.op).__name__
                out.append((i if i is not None else unparse(idx), op, term))
            elif isinstance(n, ast.Assign) and any(isinstance(t, ast.Subscript) for t in n.targets):
                # result[i] = result[i] + term
                t = [t for t in n.targets if isinstance(t, ast.Subscript)][0]
                if isinstance(n.value, ast.BinOp) and isinstance(n.value.op, ast.Add):
                    a, b = n.value.left, n.value.right
                    other = b if unparse(a) == unparse(t) else a if unparse(b) == unparse(t) else None
                    if other is not None:
                        i = const_int(t.slice)
                        out.append((i if i is not None else unparse(t.slice), "Add", SUBJ if pred(other) else unparse(other)))
        return tuple(sorted(out, key=str))
    return f


def _str_consts(node) -> list[str]:
    return [n.value for n in ast.walk(node) if isinstance(n, ast.Constant) and isinstance(n.value, str)]


COLOURS = ("green", "yellow", "dark_orange", "red")


def lab_colour(tree, v):
    """The colour literal that reaches the result: returned Style(color=..)/literal, or
    the value assigned to a local that is then used as a colour."""
    found = []
    for n in ast.walk(tree):
        if isinstance(n, ast.Return) and n.value is not None:
            cs = [c for c in _str_consts(n.value) if c in COLOURS]
            found.extend(cs)
        elif isinstance(n, ast.Assign) and isinstance(n.value, ast.Constant) and n.value.value in COLOURS:
            found.append(n.value.value)
        elif isinstance(n, ast.keyword) and n.arg == "color" and isinstance(n.value, ast.Constant):
            if n.value.value in COLOURS:
                found.append(n.value.value)
    found = sorted(set(found))
    return tuple(found)


EMOJI = {"✖": "cross", "⚠": "warning", "✓": "check", "❌": "cross", "⛌": "cross"}


def lab_returned_symbol(tree, v):
    out = []
    for n in ast.walk(tree):
        if isinstance(n, ast.Return) and n.value is not None:
            out.extend(EMOJI.get(c, c) for c in _str_consts(n.value))
    return tuple(sorted(set(out)))


def lab_symbol_anywhere(tree, v):
    out = []
    for n in ast.walk(tree):
        if isinstance(n, ast.Constant) and isinstance(n.value, str) and n.value in EMOJI:
            out.append(EMOJI[n.value])
    return tuple(sorted(set(out)))


def lab_counters(tree, v):
    """Which `self.<counter>` attributes are increased by a non-zero amount."""
    out = []
    for n in ast.walk(tree):
        if isinstance(n, ast.AugAssign) and isinstance(n.target, ast.Attribute) and isinstance(n.op, ast.Add):
            val = n.value
            zero = False
            # len([]) / sum([]) of an emptied comprehension, or literal 0
            if isinstance(val, ast.Call) and val.args and isinstance(val.args[0], ast.List) and not val.args[0].elts:
                zero = True
            if const_int(val) == 0:
                zero = True
            if not zero:
                out.append(n.target.attr)
    return tuple(sorted(set(out)))


def lab_kept(tree, v):
    """Is the element kept: does a comprehension over the measurements survive /
    is an append/add still executed (not preceded by continue)?"""
    kept = []
    for n in ast.walk(tree):
        if isinstance(n, ast.List) and getattr(n, "_emptied_comp", False):
            kept.append("dropped")
        elif isinstance(n, (ast.ListComp, ast.GeneratorExp, ast.SetComp)):
            kept.append("kept")
    if not kept:
        # loop form: for m in ms: [if ..: continue]; xs.append(m)
        for n in ast.walk(tree):
            if isinstance(n, ast.For) and not any(isinstance(c, ast.For) for c in ast.walk(n) if c is not n):
                has_app = any(isinstance(c, ast.Call) and isinstance(c.func, ast.Attribute)
                              and c.func.attr in ("append", "add", "extend") for c in ast.walk(n))
                kept.append("kept" if has_app else "dropped")
    return tuple(kept)


# ----------------------------------------------------------------------------
# site table (confirmed by reading; DESIGN.md section 4, C02-R1)
# ----------------------------------------------------------------------------

def exp_profile(term):
    return lambda cat: ((cat, "Add", term),)


SITES = {
    "codelimit.common.utils:make_profile": dict(
        what="LOC-weighted profile: one cell per category, += length",
        label="cells", expect=exp_profile(SUBJ)),
    "codelimit.common.utils:make_count_profile": dict(
        what="count profile: one cell per category, += 1",
        label="cells", expect=exp_profile("1")),
    "codelimit.common.utils:get_style_for_measurement": dict(
        what="colour next to a function", label="colour", expect=lambda cat: (COLOURS[cat],)),
    "codelimit.common.utils:format_unit": dict(
        what="colour of a unit line", label="colour", expect=lambda cat: (COLOURS[cat],)),
    "codelimit.common.utils:get_emoji_for_measurement": dict(
        what="symbol next to a function", label="retsym",
        expect=lambda cat: (("check",), ("check",), ("warning",), ("cross",))[cat]),
    "codelimit.common.CheckResult:CheckResult.add": dict(
        what="check counters", label="counters",
        expect=lambda cat: ((), (), ("hard_to_maintain",), ("unmaintainable",))[cat]),
    "codelimit.commands.check:check_file": dict(
        what="functions listed by check: exactly L > 30", label="kept",
        expect=lambda cat: (("dropped",), ("dropped",), ("kept",), ("kept",))[cat]),
    "codelimit.common.report.format_markdown:_print_findings_without_repository": dict(
        what="findings symbol (reached only with L > 30)", label="sym",
        expect=lambda cat: (None, None, ("warning",), ("cross",))[cat]),
    "codelimit.common.report.format_markdown:_print_findings_with_repository": dict(
        what="findings symbol (reached only with L > 30)", label="sym",
        expect=lambda cat: (None, None, ("warning",), ("cross",))[cat]),
}

# functions whose decision depends on a cut *parameter*; each caller is an instance
CUT_SITES = {
    "codelimit.common.report.Report:Report.all_report_units_sorted_by_length_asc": dict(
        what="findings list: exactly L > 30", label="kept",
        callers={
            "codelimit.common.report.format_text:print_findings",
            "codelimit.common.report.format_markdown:print_findings",
        },
        expect=lambda cat: (("dropped",), ("dropped",), ("kept",), ("kept",))[cat]),
}

EXEMPT = {
    # (function, literal): reason
    ("codelimit.common.utils:format_unit", 1000): "selects the column width of the number, not a category",
}


def _labeller(kind, pred):
    return {"cells": lab_profile_cells(pred), "colour": lab_colour, "retsym": lab_returned_symbol,
            "sym": lab_symbol_anywhere, "counters": lab_counters, "kept": lab_kept}[kind]


def _delegates_to(prj: Project, fi: FuncInfo, facts: LengthFacts) -> Optional[str]:
    """A site function without own comparisons that hands the length to another site."""
    pred = facts.subject_pred(fi)
    for call in fi.calls():
        tg, kind = prj.resolve_call(fi, call)
        for t in tg:
            if t.qual in SITES and any(pred(a) for a in list(call.args) + [k.value for k in call.keywords]):
                return t.qual
    return None


def observe(prj, fi: FuncInfo, kind: str, v: int, subj_is_length: bool):
    """outcome of the site for length v by abstract evaluation (external calls recorded as effects); raises Unknown"""
    from ..evalsite import default_args, deep_strs, run_site
    if kind == "kept" and fi.qual == "codelimit.commands.check:check_file":
        # check_file interpreted on a file of a virtual tree; lexing and measuring replaced: the measuring step yields one
        # function of length v, and what reaches CheckResult.add is observed
        from .. import walk_eval as W
        from ..evalsite import measurement, new_instance
        from ..fsmodel import PathV
        lab = W.Lab(prj, W.ROOT, deep=True)
        m = measurement(v, prj=prj)
        lab.measured = [m]
        cr = new_instance(prj, prj.cls("codelimit.common.CheckResult:CheckResult"))
        lab.run(fi.qual, [PathV(W.ROOT + "/a.py"), cr])
        if not any(c[0] == "scan_file" for c in lab.calls):
            raise Unknown("check_file does not reach scan_file on a supported file")

        def holds(x, depth=0):
            if x is m:
                return True
            if isinstance(x, (list, tuple)) and depth < 4:
                return any(holds(y, depth + 1) for y in x)
            return False
        kept = any(holds(a) for c in lab.calls if c[0] == "add" for a in list(c[1]) + list(c[2].values())) or holds(list(cr.fields.values()))
        return ("kept",) if kept else ("dropped",)
    args, self_obj = default_args(prj, fi, v)
    before = dict(self_obj.fields) if self_obj is not None else {}

    def counters_of(obj):
        """hard_to_maintain / unmaintainable as the object answers for them (fields, properties, a nested tally)"""
        from ..absint import MiniInterp
        out = {}
        it_ = MiniInterp(prj, max_steps=20000)
        for nm in ("hard_to_maintain", "unmaintainable"):
            try:
                val_ = it_.getattr(obj, nm, fi, None)
            except (Unknown, PyRaise):
                return None
            if not isinstance(val_, int) or isinstance(val_, bool):
                return None
            out[nm] = val_
        return out
    named_before = counters_of(self_obj) if kind == "counters" and self_obj is not None else None
    run = run_site(prj, fi, args, self_obj=self_obj)
    if run.raised is not None:
        raise Unknown(f"raises {run.raised.name}")
    if kind == "counters" and named_before is not None:
        named_after = counters_of(self_obj)
        if named_after is not None:
            return tuple(sorted(k for k in named_after if named_after[k] != named_before[k]))
    if kind == "cells":
        res = run.result
        if not (isinstance(res, list) and len(res) == 4 and all(isinstance(x, int) and not isinstance(x, bool) for x in res)):
            raise Unknown(f"result {res!r} is not a list of four integers")
        return tuple((i, "Add", SUBJ if (subj_is_length and x == v) else str(x)) for i, x in enumerate(res) if x != 0)
    everything = [run.result] + [a for _, aa, kw in run.effects for a in list(aa) + list(kw.values())]
    if kind == "colour":
        # the colour the function hands back; only when its result carries none (it prints instead): the colours of what it printed.
        # Objects built while a module-level table was evaluated (a precomputed tuple of styles) are not outcomes of this call.
        own = tuple(sorted({c for c in deep_strs([run.result]) if c in COLOURS}))
        if own:
            return own
        used = [a for name, aa, kw in run.effects if not name.split(".")[-1].split("(")[0].endswith("Style") for a in list(aa) + list(kw.values())]
        return tuple(sorted({c for c in deep_strs(used) if c in COLOURS}))
    if kind == "retsym":
        return tuple(sorted({EMOJI[e] for st in deep_strs(run.result) for e in EMOJI if e in st}))
    if kind == "sym":
        return tuple(sorted({EMOJI[e] for st in deep_strs(everything) for e in EMOJI if e in st}))
    if kind == "counters":
        out = []
        for k, val in self_obj.fields.items():
            old = before.get(k)
            if isinstance(val, int) and isinstance(old, int) and not isinstance(val, bool) and val != old:
                out.append(k)
        return tuple(sorted(out))
    raise Unknown(f"no evaluation harness for {kind}")


_INT_LITS: dict = {}


def project_int_literals(prj) -> set:
    """every integer literal written anywhere in the package (candidate cut points of a table-driven classification)"""
    key = id(prj)
    if key not in _INT_LITS:
        out = set()
        for m in prj.modules.values():
            for n in ast.walk(m.tree):
                if isinstance(n, ast.Constant) and isinstance(n.value, int) and not isinstance(n.value, bool):
                    out.add(n.value)
        _INT_LITS[key] = out
    return _INT_LITS[key]


def check_site(ctx, prj, fi: FuncInfo, facts: LengthFacts, spec: dict, consts=None, inst: str = ""):
    pred = facts.subject_pred(fi)
    lab0 = _labeller(spec["label"], pred)
    evaluated = {"n": 0, "fallback": 0}
    subj_is_length = spec["label"] == "cells" and spec["expect"](0)[0][2] == SUBJ

    def lab(tree, v):
        if consts is None and (spec["label"] in ("cells", "colour", "retsym", "counters", "sym") or
                               spec["label"] == "kept" and fi.qual == "codelimit.commands.check:check_file"):
            try:
                r = observe(prj, fi, spec["label"], v, subj_is_length)
                evaluated["n"] += 1
                return r
            except (Unknown, PyRaise):
                evaluated["fallback"] += 1
        if tree is None:
            tree, _ = residual(fi, pred, v, consts)
        return lab0(tree, v)
    lits = sorted(set(literals_compared(fi, pred, consts)) | reachable_int_literals(fi, pred) | closure_int_literals(prj, fi))
    key = fi.qual.split(":", 1)[1] + (f"<-{inst}" if inst else "")
    evaluable = consts is None and (spec["label"] in ("cells", "colour", "retsym", "counters", "sym") or
                                    spec["label"] == "kept" and fi.qual == "codelimit.commands.check:check_file")
    if not lits and evaluable:
        # no comparison with a literal is visible at the site (the category comes from a table, an enum, bisect ...): the decision
        # is evaluated (observe) around the specification's own boundaries and around every integer literal of the modules involved
        try:
            observe(prj, fi, spec["label"], 31, subj_is_length)
            lits = sorted({15, 30, 60} | {v for v in project_int_literals(prj) if 2 <= v <= 200})
        except (Unknown, PyRaise):
            lits = []
    if not lits:
        d = _delegates_to(prj, fi, facts)
        if d:
            ctx.ok("R1", fi.site(), f"{key}: delegates the decision to {d}")
            return
        raise AnalysisError(f"C02-R1: {fi.disp} no longer compares a function length with integer literals "
                            f"and does not delegate to a known site; cannot classify its decision")
    pts = sample_points(lits)
    bad = None
    n = 0
    for v in pts:
        got = lab(None, v)
        want = spec["expect"](category(v))
        n += 1
        if want is None:
            continue
        ctx.obligations += 1
        if got != want:
            if bad is None:
                bad = (v, got, want)
        else:
            ctx.discharged += 1
    regs, _ = regions(fi, pred, consts, label=lab)
    desc = fmt_regions(regs)
    if bad and evaluated["fallback"] and not evaluated["n"] and len({repr(r[2]) for r in regs}) == 1:
        # the site could not be evaluated and the syntactic reading sees the same constructs for every length (no decision is
        # visible to it: a table, an enum, a helper): nothing was recognised, so nothing is reported
        raise AnalysisError(f"C02-R1: {fi.disp}: the decision of this site could be neither evaluated nor read off its syntax")
    if bad:
        v, got, want = bad
        ctx.viol("R1", key, fi.site(),
                 f"{spec['what']}: for length {v} ({CAT_NAMES[category(v)]}) the site decides {got}, "
                 f"the specification requires {want}; site partition: {desc}; literals compared: {lits}",
                 partition=desc, literals=lits)
    else:
        ctx.instances.setdefault("R1", []).append(dict(site=fi.site(), what=f"{key}: {desc}", verdict="ok"))
        ctx.lines.append(f"OK rule=R1 site={fi.site()} construct={key} partition=[{desc}] points={n}")
        ctx.sample({"site": key, "partition": desc, "literals": lits})


def _cut_site(ctx, prj, facts, q, spec, only_other_callers: bool):
    if True:
        fi = prj.func(q)
        cuts = facts.cut_params.get(fi.qual, set())
        if len(cuts) != 1:
            raise AnalysisError(f"C02-R1: expected exactly one cut parameter in {fi.disp}, found {sorted(cuts)}")
        cut = next(iter(cuts))
        seen_callers = set()
        for caller_q in sorted(prj.callgraph.callers_of(fi.qual)):
            cfi = prj.funcs[caller_q]
            for call in prj.callgraph.sites.get((caller_q, fi.qual), []):
                params = [p for p in fi.params() if p != "self"]
                arg = None
                if cut in params and params.index(cut) < len(call.args):
                    arg = call.args[params.index(cut)]
                for k in call.keywords:
                    if k.arg == cut:
                        arg = k.value
                if arg is None:
                    arg = fi.param_default(cut)
                val = const_int(expand(cfi, arg)) if arg is not None else None
                if val is None and arg is not None:
                    try:
                        from ..absint import MiniInterp
                        v2 = MiniInterp(prj).ev(arg, {}, cfi)
                        val = v2 if isinstance(v2, int) and not isinstance(v2, bool) else None
                    except (Unknown, PyRaise):
                        val = None
                if val is None:
                    raise AnalysisError(f"C02-R1: {cfi.disp} passes a non-literal cut {unparse(arg)} to {fi.local}")
                # a newly extracted helper stands for the baseline functions that call it
                from ..inline import baseline_names
                eff, todo = set(), [caller_q]
                while todo:
                    q0 = todo.pop()
                    if q0 in eff:
                        continue
                    eff.add(q0)
                    if q0 not in baseline_names():
                        todo += list(prj.callgraph.callers_of(q0))
                seen_callers |= eff
                if eff & spec["callers"]:
                    if only_other_callers:
                        continue
                    check_site(ctx, prj, fi, facts, spec, consts={cut: val}, inst=cfi.local)
                else:
                    # other callers: must at least be a coarsening (e.g. threshold 0 = everything)
                    generic_site(ctx, prj, fi, facts, consts={cut: val}, inst=cfi.local)
        missing = spec["callers"] - seen_callers
        if missing and not only_other_callers:
            raise AnalysisError(f"C02-R1: findings renderers {sorted(missing)} no longer obtain their list from {fi.local}")


def rule_R1(ctx, prj: Project, facts: LengthFacts):
    ctx.rule("R1", "every comparison of a function length with an integer literal partitions the lengths as a "
                   "coarsening of {<=15 | 16..30 | 31..60 | >60} and maps each region to the outcome the "
                   "specification gives for its category (site table of DESIGN 4/C02-R1)", floor=10)
    for q, spec in SITES.items():
        check_site(ctx, prj, prj.func(q), facts, spec)
    # cut-parameter sites: one instance per caller, the literal flows in through the argument
    listed = rule_R6_findings(ctx, prj)
    for q, spec in CUT_SITES.items():
        if listed:
            ctx.ok("R1", prj.func(q).site(), f"{prj.func(q).local}: the cut of the findings lists is decided by evaluation of the renderers (R6)")
            try:
                _cut_site(ctx, prj, facts, q, spec, only_other_callers=True)
            except AnalysisError as e:
                ctx.info(f"R1: other callers of {prj.func(q).local} not classified structurally ({e}); the findings renderers are decided by R6")
            continue
        _cut_site(ctx, prj, facts, q, spec, only_other_callers=False)
    # every other place that compares a length with a literal
    known = set(SITES) | set(CUT_SITES)
    for fi in facts.functions_with_length_comparisons():
        if fi.qual in known:
            continue
        generic_site(ctx, prj, fi, facts)


_SHOWN: dict = {}


def rule_R6_findings(ctx, prj: Project) -> bool:
    """the findings lists evaluated end to end; True when all four renderings were decided"""
    from ..render_eval import FINDING_LENGTHS, findings_listed
    ctx.rule("R6", "findings lists, evaluated: print_findings of the text and of the markdown renderer (with and without "
                   "repository, full=True), interpreted on a report built through the repo's constructors with one function of "
                   f"every length in {list(FINDING_LENGTHS)}, lists exactly the functions longer than 30 lines", floor=0)
    want = {v for v in FINDING_LENGTHS if v > 30}
    decided = 0
    for q in ("codelimit.common.report.format_text:print_findings", "codelimit.common.report.format_markdown:print_findings"):
        fi = prj.func(q)
        for repo in (False, True):
            try:
                shown = findings_listed(prj, q, repo)
            except (Unknown, PyRaise) as e:
                ctx.info(f"R6: {fi.disp} not evaluable ({type(e).__name__}: {e}); the structural cut-site rule decides")
                continue
            decided += 1
            _SHOWN.setdefault(id(prj), []).append((fi, repo, shown))
            what = f"{fi.module.name.split('.')[-1]}.print_findings({'with' if repo else 'without'} repository)"
            if set(shown) != want:
                extra, missing = sorted(set(shown) - want), sorted(want - set(shown))
                ctx.viol("R6", f"{fi.module.name.split('.')[-1]}.print_findings/listed", fi.site(),
                         f"{what} lists the functions of length {shown}; required exactly those longer than 30: {sorted(want, reverse=True)}"
                         + (f"; listed although <= 30: {extra}" if extra else "") + (f"; not listed although > 30: {missing}" if missing else ""))
            else:
                ctx.ok("R6", fi.site(), f"{what}: lists exactly the lengths {sorted(shown)}")
    return decided == 4


def _features(tree) -> tuple:
    feats = []
    for n in ast.walk(tree):
        if isinstance(n, ast.List) and getattr(n, "_emptied_comp", False):
            feats.append("comp-dropped")
        elif isinstance(n, (ast.ListComp, ast.GeneratorExp, ast.SetComp)):
            feats.append("comp")
        elif isinstance(n, ast.Call) and isinstance(n.func, ast.Attribute) and n.func.attr in ("append", "add", "extend"):
            feats.append("call:" + unparse(n.func))
        elif isinstance(n, (ast.Continue, ast.Break)):
            feats.append(type(n).__name__)
        elif isinstance(n, ast.AugAssign):
            feats.append("aug:" + unparse(n.target))
        elif isinstance(n, ast.Constant) and isinstance(n.value, str) and (n.value in COLOURS or n.value in EMOJI):
            feats.append("lit:" + n.value)
        elif isinstance(n, ast.Raise):
            feats.append("raise:" + unparse(n.exc))
    return tuple(sorted(feats))


def generic_site(ctx, prj, fi: FuncInfo, facts: LengthFacts, consts=None, inst=""):
    """A comparison of a length outside the site table: it must not introduce a
    category decision at a boundary other than 15/30/60."""
    pred = facts.subject_pred(fi)
    lits = [l for l in literals_compared(fi, pred, consts) if (fi.qual, l) not in EXEMPT]
    key = fi.qual.split(":", 1)[1] + (f"<-{inst}" if inst else "")
    regs, _ = regions(fi, pred, consts, label=lambda t, v: _features(t))
    bounds = [r[0] - 1 for r in regs[1:]]       # last value of the previous region
    off = [b for b in bounds if b not in SPEC_CUTS and b >= 1]
    desc = fmt_regions([(a, b, "#%d" % i, None) for i, (a, b, _, _) in enumerate(regs)])
    if off:
        ctx.viol("R1", key, fi.site(),
                 f"a function length is compared at a boundary that is not 15/30/60 and the outcome changes "
                 f"what is kept, counted or shown: boundaries after {off}; partition {desc}")
    else:
        ctx.ok("R1", fi.site(), f"{key}: unlisted site, category-visible boundaries {bounds or 'none'} within 15/30/60")


# ----------------------------------------------------------------------------
# R2: alarm decision in check_command
# ----------------------------------------------------------------------------

def rule_R2_evaluated(ctx, prj: Project) -> bool:
    """the 18-row truth table by evaluation: check_command interpreted on one file of a virtual tree whose measuring step yields
    `hard` functions of 45 and `unm` functions of 90 lines (and one of 7); exit status and whether anything is printed are observed"""
    from .. import walk_eval as W
    from ..evalsite import deep_strs, measurement
    from ..fsmodel import PathV
    fi = prj.func("codelimit.commands.check:check_command")
    rows = []
    for quiet in (False, True):
        for hard in (0, 1, 2):
            for unm in (0, 1, 2):
                lab = W.Lab(prj, W.ROOT, deep=True)
                lab.measured = [measurement(7, "small", prj)] + [measurement(45, f"h{i}", prj) for i in range(hard)] + [measurement(90, f"u{i}", prj) for i in range(unm)]
                code = "no typer.Exit raised"
                try:
                    it = MiniInterp(prj, lab.hook, max_steps=400000, max_depth=60)
                    lab.interp = it
                    it.call(fi, [[PathV("a.py")], quiet], {})
                except PyRaise as e:
                    if e.name != "Exit":
                        raise Unknown(f"check_command raises {e.name}")
                    v = getattr(e, "value", None)
                    code = v.fields.get("code", 0) if isinstance(v, Sym) else None
                    if not isinstance(code, int):
                        raise Unknown(f"exit status {code!r}")
                printed = [t for name, aa, kw in lab.effects.effects if name.split(".")[-1] in ("print", "echo", "secho", "log") for t in deep_strs(list(aa))] + \
                          [t for aa, kw in lab.printed for t in deep_strs(list(aa))] + ["<call>" for aa, kw in lab.printed if not aa]
                printed = [t for t in printed if isinstance(t, str)]
                rows.append((quiet, hard, unm, code, bool(printed)))
    # several files in one run, two of them with the same base name in different directories: every file's long functions count
    lab = W.Lab(prj, W.ROOT, deep=True)
    lab.measured = [measurement(45, "h", prj), measurement(90, "u", prj)]
    files = ["a.py", "sub/deep/a.py", "sub/s.py"]
    try:
        it = MiniInterp(prj, lab.hook, max_steps=600000, max_depth=60)
        lab.interp = it
        it.call(fi, [[PathV(x) for x in files], False], {})
    except PyRaise as e:
        if e.name != "Exit":
            raise Unknown(f"check_command raises {e.name}")
    cr = lab.check_result
    adds = [c for c in lab.calls if c[0] == "add"]
    if isinstance(cr, Sym) and isinstance(cr.fields.get("hard_to_maintain"), int):
        got = (cr.fields.get("hard_to_maintain"), cr.fields.get("unmaintainable"))
        if got != (len(files), len(files)) or len(adds) != len(files):
            ctx.viol("R2", "check_command/files-counted", fi.site(), f"checking {files} (each with one function of 45 and one of 90 lines) counts "
                                                                     f"{got[0]} hard-to-maintain and {got[1]} unmaintainable functions from {len(adds)} file(s); required {len(files)} of each: "
                                                                     f"a file's functions are dropped when another checked file has the same name in another directory")
        else:
            ctx.ok("R2", fi.site(), f"three files, two with the same base name: {got[0]} + {got[1]} functions counted")
    bad_exit = bad_report = None
    for quiet, hard, unm, code, reported in rows:
        row = f"quiet={quiet} hard={hard} unm={unm}"
        want_code = 1 if unm > 0 else 0
        want_rep = (not quiet) or hard > 0 or unm > 0
        ctx.obligations += 2
        if code != want_code:
            bad_exit = bad_exit or (row, code, want_code)
        else:
            ctx.discharged += 1
        if reported != want_rep:
            bad_report = bad_report or (row, reported, want_rep)
        else:
            ctx.discharged += 1
        ctx.instances.setdefault("R2", []).append(dict(site=fi.site(), what=f"{row} -> exit {code}, output {reported}",
                                                       verdict="ok" if (code == want_code and reported == want_rep) else "violation"))
    if bad_exit:
        row, got, want = bad_exit
        ctx.viol("R2", "check_command/exit-status", fi.site(), f"for {row} the exit status is {got}, required {want}")
    if bad_report:
        row, got, want = bad_report
        ctx.viol("R2", "check_command/report-guard", fi.site(), f"for {row} check {'prints a report' if got else 'prints nothing'}, "
                 f"required {'a report' if want else 'nothing'} (quiet prints nothing exactly when nothing needs refactoring)")
    if not bad_exit and not bad_report:
        ctx.lines.append(f"OK rule=R2 site={fi.site()} construct=check_command rows={len(rows)} (evaluated)")
    return True


def rule_R2(ctx, prj: Project):
    ctx.rule("R2", "check exits 1 exactly when unmaintainable >= 1 (else 0), always through typer.Exit, and prints "
                   "its report exactly when not quiet or hard_to_maintain > 0 or unmaintainable > 0 "
                   "(18-row truth table: check_command evaluated on a file with the given numbers of long functions; "
                   "folding of the function as the fallback)", floor=18)
    try:
        if rule_R2_evaluated(ctx, prj):
            return
    except (Unknown, PyRaise) as e:
        ctx.info(f"R2: check_command not evaluable ({type(e).__name__}: {e}); the function is folded instead")
        ctx.instances["R2"] = []
        ctx.violations[:] = [v for v in ctx.violations if v.rule != "R2"]
    fi = prj.func("codelimit.commands.check:check_command")
    if "quiet" not in fi.params():
        raise AnalysisError("check_command has no 'quiet' parameter any more")
    bad_exit = bad_report = None
    rows = 0
    for quiet in (False, True):
        for hard in (0, 1, 2):
            for unm in (0, 1, 2):
                def val(n, quiet=quiet, hard=hard, unm=unm):
                    if isinstance(n, ast.Name) and n.id == "quiet":
                        return quiet
                    if isinstance(n, ast.Attribute) and n.attr == "hard_to_maintain":
                        return hard
                    if isinstance(n, ast.Attribute) and n.attr == "unmaintainable":
                        return unm
                    return None
                tree = residual_multi(fi, val)
                body = tree.body
                # outcome: first top-level raise / report call (top level of the folded body)
                code, reported, raised = None, False, False
                for st in body:
                    if isinstance(st, ast.Expr) and isinstance(st.value, ast.Call):
                        ch = attr_chain(st.value.func) or ""
                        if ch.endswith(".report"):
                            reported = True
                    if isinstance(st, ast.Raise):
                        raised = True
                        code = _exit_code(tree, st, val)
                        break
                    if isinstance(st, ast.If):
                        # an undecided test on the path to the exit
                        if any(isinstance(x, (ast.Raise,)) or (isinstance(x, ast.Call) and (attr_chain(x.func) or "").endswith(".report"))
                               for x in ast.walk(st)):
                            raise AnalysisError(f"C02-R2: exit/report in check_command depends on a condition "
                                                f"outside (quiet, hard_to_maintain, unmaintainable): {unparse(st.test)}")
                rows += 1
                row = f"quiet={quiet} hard={hard} unm={unm}"
                want_code = 1 if unm > 0 else 0
                want_rep = (not quiet) or hard > 0 or unm > 0
                if not raised or code != want_code:
                    bad_exit = bad_exit or (row, code if raised else "no typer.Exit raised", want_code)
                else:
                    ctx.discharged += 1
                ctx.obligations += 1
                if reported != want_rep:
                    bad_report = bad_report or (row, reported, want_rep)
                else:
                    ctx.discharged += 1
                ctx.obligations += 1
                ctx.instances.setdefault("R2", []).append(dict(site=fi.site(), what=f"{row} -> exit {code}, report {reported}",
                                                               verdict="ok" if (raised and code == want_code and reported == want_rep) else "violation"))
    if bad_exit:
        row, got, want = bad_exit
        ctx.viol("R2", "check_command/exit-status", fi.site(), f"for {row} the exit status is {got}, required {want}")
    if bad_report:
        row, got, want = bad_report
        ctx.viol("R2", "check_command/report-guard", fi.site(), f"for {row} report() is {'called' if got else 'not called'}, "
                 f"required {'called' if want else 'not called'} (quiet prints nothing exactly when nothing needs refactoring)")
    if not bad_exit and not bad_report:
        ctx.lines.append(f"OK rule=R2 site={fi.site()} construct=check_command rows={rows}")


def _exit_code(tree, st: ast.Raise, val):
    exc = st.exc
    if not isinstance(exc, ast.Call) or not (attr_chain(exc.func) or "").endswith("Exit"):
        return f"raises {unparse(exc)}"
    arg = None
    if exc.args:
        arg = exc.args[0]
    for k in exc.keywords:
        if k.arg == "code":
            arg = k.value
    if arg is None:
        return 0
    if isinstance(arg, ast.Name):
        r = _resolve_local_const(tree, arg.id)
        if r is not None:
            arg = r
    c = const_int(arg)
    if c is None and isinstance(arg, ast.Constant) and isinstance(arg.value, bool):
        c = int(arg.value)
    if c is None:
        raise AnalysisError(f"C02-R2: exit code expression {unparse(arg)} does not fold to a constant")
    return c


# ----------------------------------------------------------------------------
# R3: listing order and summary count
# ----------------------------------------------------------------------------

def _is_value_key_desc(call: ast.Call) -> Optional[str]:
    """sorted(..)/.sort(..) call: 'desc' if ordered by .value descending, 'asc', or None."""
    key = rev = None
    for k in call.keywords:
        if k.arg == "key":
            key = k.value
        if k.arg == "reverse":
            rev = k.value
    if not isinstance(key, ast.Lambda):
        return None
    body = key.body
    neg = False
    if isinstance(body, ast.UnaryOp) and isinstance(body.op, ast.USub):
        neg, body = True, body.operand
    if not (isinstance(body, ast.Attribute) and body.attr == "value"):
        return None
    r = isinstance(rev, ast.Constant) and rev.value is True
    if rev is not None and not isinstance(rev, ast.Constant):
        return None
    return "desc" if (r != neg) else "asc"


def _report_rows(ctx, prj, rep):
    import re
    from ..evalsite import deep_strs, new_instance, run_site
    bad_count = bad_guard = None
    rows = 0
    for hard in (0, 2):
        for unm in (0, 5):
            me = new_instance(prj, rep.cls)
            if "hard_to_maintain" in me.fields and "unmaintainable" in me.fields:
                me.fields["hard_to_maintain"], me.fields["unmaintainable"] = hard, unm
            else:
                # the counters are not plain fields of the result object: it is filled through its own add(), with `hard` functions
                # of 45 and `unm` functions of 90 lines, and no file list to print
                from ..evalsite import measurement
                from ..fsmodel import PathV
                from ..absint import MiniInterp
                addm = rep.cls.find_method("add")
                if addm is None:
                    raise Unknown("CheckResult has neither counter fields nor an add method")
                ms_ = [measurement(45, f"h{i}", prj) for i in range(hard)] + [measurement(90, f"u{i}", prj) for i in range(unm)]
                it0 = MiniInterp(prj, max_steps=100000)
                it0.call(prj.func(addm.qual), [PathV("/w/proj/a.py"), ms_], {}, me)
                for fld, val in list(me.fields.items()):
                    if isinstance(val, list) and val and fld != "tally":
                        me.fields[fld] = []        # nothing to list: only the summary line is looked at
            run = run_site(prj, rep, [], self_obj=me)
            if run.raised is not None:
                raise Unknown(f"raises {run.raised.name}")
            texts = deep_strs([a for _, aa, kw in run.effects for a in list(aa) + list(kw.values())])
            nums = {int(x) for t in texts for x in re.findall(r"\d+", t)} - {0}
            rows += 1
            total = hard + unm
            if total > 0 and nums and nums != {total}:
                bad_count = bad_count or (hard, unm, sorted(nums))
            if (total in nums) != (total > 0) and not (total > 0 and nums and nums != {total}):
                bad_guard = bad_guard or (hard, unm, bool(nums))
    if bad_count:
        ctx.viol("R3", "CheckResult.report/summary-count", rep.site(),
                 f"with hard_to_maintain={bad_count[0]}, unmaintainable={bad_count[1]} the summary prints {bad_count[2]}; required: their sum {bad_count[0] + bad_count[1]}")
    else:
        ctx.ok("R3", rep.site(), "CheckResult.report: summary count = hard_to_maintain + unmaintainable (evaluated, 4 rows)")
    if bad_guard:
        ctx.viol("R3", "CheckResult.report/summary-guard", rep.site(),
                 f"with hard_to_maintain={bad_guard[0]}, unmaintainable={bad_guard[1]} the 'functions need refactoring' count is "
                 f"{'shown' if bad_guard[2] else 'not shown'}; required exactly when the sum is positive")
    else:
        ctx.ok("R3", rep.site(), "CheckResult.report: count shown exactly when hard_to_maintain + unmaintainable > 0 (4 rows)")


def _report_syntactic(ctx, prj, rep):
    sums = []
    for n in rep.walk():
        if isinstance(n, ast.FormattedValue):
            names = {x.attr for x in ast.walk(n.value) if isinstance(x, ast.Attribute)}
            if names & {"hard_to_maintain", "unmaintainable"}:
                sums.append(n)
    if not sums:
        raise AnalysisError("C02-R3: CheckResult.report no longer prints a number built from its counters")
    for n in sums:
        e = n.value
        ok = (isinstance(e, ast.BinOp) and isinstance(e.op, ast.Add)
              and {unparse(e.left), unparse(e.right)} == {"self.hard_to_maintain", "self.unmaintainable"})
        if ok:
            ctx.ok("R3", rep.site(n), "CheckResult.report: summary count = hard_to_maintain + unmaintainable")
        else:
            ctx.viol("R3", "CheckResult.report/summary-count", rep.site(n),
                     f"the summary prints {unparse(e)}; required: self.hard_to_maintain + self.unmaintainable")
    bad = None
    for hard in (0, 1):
        for unm in (0, 1):
            def val(n, hard=hard, unm=unm):
                if isinstance(n, ast.Attribute) and n.attr == "hard_to_maintain":
                    return hard
                if isinstance(n, ast.Attribute) and n.attr == "unmaintainable":
                    return unm
                return None
            tree = residual_multi(rep, val)
            shows_count = any(isinstance(x, ast.FormattedValue) and (({a.attr for a in ast.walk(x.value) if isinstance(a, ast.Attribute)}
                              & {"hard_to_maintain", "unmaintainable"}) or (isinstance(x.value, ast.Constant) and type(x.value.value) is int))
                              for x in ast.walk(tree))
            if shows_count != (hard + unm > 0):
                bad = bad or (hard, unm, shows_count)
    if bad:
        ctx.viol("R3", "CheckResult.report/summary-guard", rep.site(),
                 f"with hard_to_maintain={bad[0]}, unmaintainable={bad[1]} the 'functions need refactoring' count is "
                 f"{'shown' if bad[2] else 'not shown'}; required exactly when the sum is positive")
    else:
        ctx.ok("R3", rep.site(), "CheckResult.report: count shown exactly when hard_to_maintain + unmaintainable > 0 (4 rows)")


def _check_file_order_syntactic(ctx, prj, fi):
    # (a) list handed to CheckResult.add
    found = False
    for call in fi.calls():
        if isinstance(call.func, ast.Attribute) and call.func.attr == "add" and "check_result" in unparse(call.func.value):
            if len(call.args) < 2:
                continue
            found = True
            arg = expand(fi, call.args[1])
            order = list_value_order(prj, fi, call.args[1], call)
            if order is None or order == "other":
                raise AnalysisError(f"C02-R3: {fi.site(call)}: order of the list passed to CheckResult.add not understood ({unparse(arg)[:80]})")
            if order == "desc":
                ctx.ok("R3", fi.site(call), "check_file: list passed to CheckResult.add is sorted by .value descending")
            elif order == "asc":
                ctx.viol("R3", "check_file/order", fi.site(call), "functions of a file are listed shortest first (required: longest first)")
            else:
                ctx.viol("R3", "check_file/order", fi.site(call),
                         f"the list passed to CheckResult.add is not sorted by length descending: {unparse(arg)[:120]}")
    if not found:
        raise AnalysisError("C02-R3: check_file no longer passes its findings to check_result.add")


def rule_R3(ctx, prj: Project):
    ctx.rule("R3", "check lists a file's functions longest first; the summary count is hard_to_maintain + "
                   "unmaintainable and is shown exactly when that sum is positive; the findings list is sorted "
                   "by length descending", floor=4)
    # (a) list handed to CheckResult.add: evaluated (check_file interpreted, measuring replaced by functions of lengths
    #     40, 70, 35, 61 in that order); the syntactic form decides when that is not possible
    fi = prj.func("codelimit.commands.check:check_file")
    try:
        from .. import walk_eval as W
        from ..evalsite import measurement, new_instance
        from ..fsmodel import PathV
        lab = W.Lab(prj, W.ROOT, deep=True)
        lab.measured = [measurement(v, f"f{v}", prj) for v in (40, 70, 35, 61)]
        cr = new_instance(prj, prj.cls("codelimit.common.CheckResult:CheckResult"))
        lab.run(fi.qual, [PathV(W.ROOT + "/a.py"), cr])
        adds = [c for c in lab.calls if c[0] == "add"]
        if len(adds) != 1:
            raise Unknown(f"CheckResult.add is called {len(adds)} times")
        lists = [a for a in list(adds[0][1]) + list(adds[0][2].values()) if isinstance(a, (list, tuple))]
        if len(lists) != 1:
            raise Unknown("CheckResult.add is not handed one list")
        got = [m.fields.get("value") for m in lists[0]]
        if got == [70, 61, 40, 35]:
            ctx.ok("R3", fi.site(), f"check_file: the functions handed to CheckResult.add are ordered {got} (longest first)")
        else:
            ctx.viol("R3", "check_file/order", fi.site(), f"for functions measured as 40, 70, 35, 61 lines check_file hands {got} to "
                                                            f"CheckResult.add; required the same functions longest first: [70, 61, 40, 35]")
    except (Unknown, PyRaise) as e:
        ctx.info(f"check_file not evaluable for the order of its list ({e}); the syntactic form decides")
        _check_file_order_syntactic(ctx, prj, fi)
    # (b) summary number and its guard in CheckResult.report: evaluated with the console calls recorded as effects
    rep = prj.func("codelimit.common.CheckResult:CheckResult.report")
    try:
        _report_rows(ctx, prj, rep)
    except (Unknown, PyRaise) as e:
        ctx.info(f"CheckResult.report not evaluable ({e}); falling back to the syntactic form")
        _report_syntactic(ctx, prj, rep)
    # (c) findings list order: from the evaluated renderers (R6) when all four were decided, else from the form of the method
    fr = prj.func("codelimit.common.report.Report:Report.all_report_units_sorted_by_length_asc")
    shown = _SHOWN.get(id(prj), [])
    if len(shown) == 4:
        for fi2, repo, lens in shown:
            what = f"{fi2.module.name.split('.')[-1]}.print_findings({'with' if repo else 'without'} repository)"
            if lens == sorted(lens, reverse=True):
                ctx.ok("R3", fi2.site(), f"{what}: findings appear longest first ({lens})")
            else:
                ctx.viol("R3", "Report.all_report_units_sorted_by_length_asc/order", fr.site(),
                         f"findings are not listed longest first: {what} shows the lengths in the order {lens}")
        return
    rets = [n for n in fr.walk() if isinstance(n, ast.Return) and n.value is not None]
    orders = {list_value_order(prj, fr, r.value, r, attr="measurement.value") for r in rets}
    order = orders.pop() if len(orders) == 1 else None
    if order is None or order == "other":
        raise AnalysisError(f"C02-R3: {fr.disp}: order of the returned list not understood")
    if order == "desc":
        ctx.ok("R3", fr.site(), "Report.all_report_units_sorted_by_length_asc returns the units sorted by length descending")
    else:
        ctx.viol("R3", "Report.all_report_units_sorted_by_length_asc/order", fr.site(),
                 f"findings are not returned longest first (order={order})")


# ----------------------------------------------------------------------------
# R4: per-language counters use the cells of their category
# ----------------------------------------------------------------------------

def rule_R4(ctx, prj: Project):
    ctx.rule("R4", "LanguageTotals.add takes hard_to_maintain from cell 2 and unmaintainable from cell 3 of "
                   "make_count_profile of the same entry (index <-> category agreement with the profile)", floor=2)
    from ..symtotals import WANT, WORDS, describe, language_totals_add
    inc, fi = language_totals_add(prj)
    for attr in ("hard_to_maintain", "unmaintainable"):
        if inc[attr].key() == WANT[attr].key():
            ctx.ok("R4", fi.site(), f"LanguageTotals.add: {attr} += {WORDS[attr]} (symbolic effect of the method)")
        else:
            ctx.viol("R4", f"LanguageTotals.add/{attr}", fi.site(),
                     f"{attr} is increased by {describe(inc[attr])}; required {WORDS[attr]}")


def run(ctx, prj: Project):
    ctx.explanation = (
        "Static decision of C02: every site that turns a function length into a category-dependent outcome is "
        "folded (conditional constant propagation over the integer regions induced by the literals it compares "
        "with) and its region->outcome map is compared with the specification partition 15/30/60; the exit status "
        "and the quiet/report decision of check are enumerated as an 18-row truth table on the folded function. "
        "Nothing is executed.")
    ctx.trust("ast of /repo/codelimit parsed by CPython 3.12", "comparison semantics of Python ints",
              "call resolution of sa.core (direct/self/ctor edges only are used here)")
    ctx.assume("function lengths are integers >= 1 (count of distinct lines of a non-empty scope)")
    facts = LengthFacts(prj, seed_functions=tuple(SITES))
    ctx.extra["length_params"] = {k: sorted(v) for k, v in facts.length_params.items()}
    ctx.extra["cut_params"] = {k: sorted(v) for k, v in facts.cut_params.items()}
    rule_R1(ctx, prj, facts)
    rule_R2(ctx, prj)
    rule_R3(ctx, prj)
    rule_R4(ctx, prj)
    from .c07 import rule_R8_isolation
    rule_R8_isolation(ctx, prj, rid="R5")
    ctx.exhaustive = True


def run_thorough(ctx, prj: Project):
    """the same site table, but every integer length 1..5000 instead of the literal neighbourhoods"""
    from .. import intdec
    ctx.rule("R1-exhaustive", "R1 re-evaluated for every integer length from 1 to 5000 at every table site (no sampling)")
    facts = LengthFacts(prj, seed_functions=tuple(SITES))
    old = intdec.sample_points
    intdec.sample_points = lambda lits: list(range(1, 5001))
    import sys
    mod = sys.modules[__name__]
    old_local = mod.sample_points
    mod.sample_points = intdec.sample_points
    try:
        before = len(ctx.violations)
        for q, spec in SITES.items():
            fi = prj.func(q)
            pred = facts.subject_pred(fi)
            lab = _labeller(spec["label"], pred)
            bad = None
            for v in range(1, 5001):
                tree, _ = residual(fi, pred, v)
                want = spec["expect"](category(v))
                if want is None:
                    continue
                ctx.obligations += 1
                if lab(tree, v) != want:
                    bad = bad or v
                else:
                    ctx.discharged += 1
            if bad:
                ctx.viol("R1-exhaustive", fi.local, fi.site(), f"length {bad} is decided differently from the specification")
            else:
                ctx.ok("R1-exhaustive", fi.site(), f"{fi.local}: 5000 lengths")
    finally:
        intdec.sample_points = old
        mod.sample_points = old_local
