"""C12 - check and scan agree on every file (sibling agreement of the two pipelines)."""
from __future__ import annotations

import ast

from ..core import (AnalysisError, FuncInfo, Project, attr_chain, const_str, enclosing, expand, guards_of, local_defs,
                    term, try_handlers_covering, handler_names, unparse)
from ..walkers import analysing_calls, check_hidden, classify_guard, find_walkers

SC = "codelimit.common.Scanner"
CK = "codelimit.commands.check"


def pipeline_signature(prj: Project, fi: FuncInfo) -> dict:
    """What a function does between a path and the measurements: decoding, lexing, language lookup, measuring."""
    sig = {"site": fi.disp}
    lex_calls = [c for c in fi.calls() if prj.resolve_callee_name(fi, c).endswith("lexer_utils:lex")]
    sf_calls = [c for c in fi.calls() if prj.resolve_callee_name(fi, c).endswith("Scanner:scan_file")]
    if len(lex_calls) != 1 or len(sf_calls) != 1:
        raise AnalysisError(f"{fi.disp}: expected one lex(...) and one scan_file(...) call, found {len(lex_calls)} / {len(sf_calls)}")
    lx, sf = lex_calls[0], sf_calls[0]
    args = list(lx.args) + [None] * 3
    kw = {k.arg: k.value for k in lx.keywords}
    code = args[1] if args[1] is not None else kw.get("code")
    fc = args[2] if args[2] is not None else kw.get("filter_comments")
    sig["lex_node"], sig["scan_file_node"] = lx, sf
    sig["lexer"] = unparse(args[0]) if args[0] is not None else "?"
    # decoding: provenance of the text handed to lex
    code_t = expand(fi, code)
    sig["decode_term"] = unparse(code_t)
    dec = None
    if isinstance(code_t, ast.Call):
        nm = prj.resolve_callee_name(fi, code_t)
        if nm.startswith("codelimit"):
            dec = "fn:" + nm
    if dec is None:
        # inline reading: with open(path[, encoding=..]) as f: code = f.read()
        opens = [c for c in fi.calls() if attr_chain(c.func) == "open"]
        if opens:
            c = opens[0]
            enc = [unparse(k.value) for k in c.keywords if k.arg in ("encoding", "errors")]
            hs = [n for _, h in try_handlers_covering(fi, c) for n in handler_names(h)]
            dec = f"inline-open(encoding={enc or 'default'}, handlers={sorted(set(hs)) or 'none'})"
        else:
            rt = [c for c in fi.calls() if isinstance(c.func, ast.Attribute) and c.func.attr == "read_text"]
            if rt:
                dec = f"inline-read_text({', '.join(unparse(k.value) for k in rt[0].keywords) or 'default'})"
    sig["decode"] = dec or "unknown:" + sig["decode_term"]
    sig["filter_comments"] = unparse(fc) if fc is not None else "<default>"
    # tokens handed to scan_file come from the lex call
    tok = expand(fi, sf.args[0]) if sf.args else None
    sig["tokens_from_lex"] = tok is not None and unparse(tok) == unparse(expand(fi, lx))
    sig["tokens_term"] = unparse(tok) if tok is not None else "?"
    lang = expand(fi, sf.args[1]) if len(sf.args) > 1 else None
    sig["language_term"] = unparse(lang) if lang is not None else "?"
    return sig


def rule_R1(ctx, prj):
    ctx.rule("R1", "check's directory walk hides exactly what scan's walk hides: directories pruned in place, files "
                   "filtered, both by 'name starts with a dot'", floor=2)
    fi = prj.func(f"{CK}:check_command")
    ws = find_walkers(fi)
    if len(ws) != 1:
        raise AnalysisError(f"check_command: expected one os.walk loop, found {len(ws)}")
    check_hidden(ctx, "R1", ws[0], "check_command")
    return ws[0]


def rule_R2(ctx, prj, w):
    ctx.rule("R2", "check consults the same exclusion test as scan - is_excluded(<path relative to the working directory>, "
                   "generate_exclude_spec(Path.cwd())) - before analysing a file, for directory walks and for file "
                   "arguments alike; apart from hidden names, unsupported names/languages and paths outside the working "
                   "directory nothing else filters files", floor=3)
    fi = w.fi
    calls = analysing_calls(prj, w, ("check_file",))
    if len(calls) != 1:
        raise AnalysisError(f"check_command: expected one check_file call in the per-file loop, found {len(calls)}")
    call = calls[0]
    fl = [l for l in w.file_loops if any(c is call for c in ast.walk(l))][0]
    sites = [("check_command/walk", fi, call, fl)]
    hf = prj.func(f"{CK}:_handle_file_path")
    hcalls = [c for c in hf.calls() if prj.resolve_callee_name(hf, c).endswith(":check_file")]
    if len(hcalls) != 1:
        raise AnalysisError(f"_handle_file_path: expected one check_file call, found {len(hcalls)}")
    sites.append(("_handle_file_path", hf, hcalls[0], None))
    for key, f, c, stop in sites:
        seen = False
        for g in guards_of(f, c, stop_at=stop):
            kind, ec = classify_guard(prj, f, g)
            if kind == "not-excluded":
                seen = True
                P, S = expand(f, ec.args[0]), expand(f, ec.args[1])
                ptxt = unparse(P)
                rel_ok = ".relative_to(Path.cwd())" in ptxt or "relpath(" in ptxt and "cwd" in ptxt
                if rel_ok:
                    ctx.ok("R2", f.site(ec), f"{key}: skipped iff is_excluded({ptxt[:50]}, …)")
                else:
                    ctx.viol("R2", f"{key}/excluded-path", f.site(ec), f"the path tested against the exclusions is {ptxt[:80]}; required: relative to the working directory (the root of the exclusion spec)")
                # the spec: generate_exclude_spec(Path.cwd()) (parameter handed down from check_command)
                stxt = unparse(S)
                spec_src = stxt
                if isinstance(S, ast.Name) and S.id in f.params():
                    # follow to the caller
                    cc = prj.func(f"{CK}:check_command")
                    for c2 in cc.calls():
                        if prj.resolve_callee_name(cc, c2).endswith(":" + f.name):
                            idx = f.params().index(S.id)
                            if idx < len(c2.args):
                                spec_src = term(cc, c2.args[idx])
                if spec_src.replace(" ", "") == "generate_exclude_spec(Path.cwd())":
                    ctx.ok("R2", f.site(ec), f"{key}: exclusion spec = generate_exclude_spec(Path.cwd())")
                else:
                    ctx.viol("R2", f"{key}/exclude-spec", f.site(ec), f"the exclusion spec is {spec_src[:80]}; required generate_exclude_spec(Path.cwd()) (what scan builds for the codebase root)")
            elif kind in ("not-hidden", "flag", "language-supported"):
                continue
            elif kind in ("excluded-only",):
                ctx.viol("R2", f"{key}/inverted", f.site(g.test), "a file is checked only if it IS excluded")
            elif kind.startswith("other:"):
                t = unparse(g.test)
                allowed = ("is_absolute()" in t and f == hf) or "is_file()" in t or "is_dir()" in t
                if not allowed:
                    ctx.viol("R2", f"{key}/extra-filter", f.site(g.test),
                             f"files are additionally filtered by `{'' if g.polarity else 'not '}{t[:80]}` before check_file: check skips "
                             f"(or checks) files that scan treats differently")
        if not seen:
            ctx.viol("R2", f"{key}/no-exclusion-test", f.site(c),
                     f"check_file is reached without a dominating `if is_excluded(...)`: a file that scan skips as excluded is checked")
    return call


def rule_R3(ctx, prj):
    ctx.rule("R3", "both pipelines decode, lex and measure a file in the same way: the text comes from the same decoding "
                   "function (or an identical policy), lex is called with the same filter_comments constant, the tokens "
                   "handed to scan_file are lex's result and the language is Languages.by_name[<lexer's name>]", floor=5)
    a = prj.func(f"{SC}:_analyze_file")
    c = prj.func(f"{CK}:check_file")
    sa_, sc_ = pipeline_signature(prj, a), pipeline_signature(prj, c)
    ctx.extra["pipeline_signatures"] = {"scan": {k: v for k, v in sa_.items() if isinstance(v, (str, bool))},
                                        "check": {k: v for k, v in sc_.items() if isinstance(v, (str, bool))}}
    if sa_["decode"] == sc_["decode"] and not sa_["decode"].startswith("unknown"):
        ctx.ok("R3", c.site(sc_["lex_node"]), f"decoding: both read the file through {sa_['decode']}")
    else:
        ctx.viol("R3", "check_file/decoding", c.site(sc_["lex_node"]),
                 f"scan decodes with {sa_['decode']} but check with {sc_['decode']}: a file that is not valid in the default encoding "
                 f"is analysed by one command and crashes (or is decoded differently by) the other")
    if sa_["filter_comments"] == sc_["filter_comments"]:
        ctx.ok("R3", c.site(sc_["lex_node"]), f"lexing: lex(lexer, code, {sc_['filter_comments']}) in both")
    else:
        ctx.viol("R3", "check_file/lex-filter", c.site(sc_["lex_node"]),
                 f"scan calls lex(..., {sa_['filter_comments']}) but check lex(..., {sc_['filter_comments']}): comment tokens (and with "
                 f"them the suppression marker) are visible to only one of the two")
    for name, s, f in (("scan", sa_, a), ("check", sc_, c)):
        if s["tokens_from_lex"]:
            ctx.ok("R3", f.site(s["scan_file_node"]), f"{name}: scan_file receives lex's token list unchanged")
        else:
            ctx.viol("R3", f"{f.local}/tokens", f.site(s["scan_file_node"]), f"{name}: scan_file receives {s['tokens_term'][:70]} instead of lex's result")
        lt = s["language_term"].replace(" ", "")
        lx_t = term(f, s["lex_node"].args[0]).replace(" ", "") if s["lex_node"].args else s["lexer"]
        ok_form = (lt.startswith("Languages.by_name[") and lt.endswith(".__class__.name]")) or \
            (lt.startswith("Languages.by_name.get(") and lt.endswith(".__class__.name)"))
        if ok_form and (s["lexer"] in lt or lx_t in lt):
            ctx.ok("R3", f.site(s["scan_file_node"]), f"{name}: language = {s['language_term']}")
        else:
            ctx.viol("R3", f"{f.local}/language", f.site(s["scan_file_node"]), f"{name}: language handed to scan_file is {s['language_term'][:70]}; required Languages.by_name[<lexer>.__class__.name]")
    # language gate + ClassNotFound in check_file
    look = [x for x in c.calls() if attr_chain(x.func) == "get_lexer_for_filename"]
    if not look:
        raise AnalysisError("check_file: lexer lookup not found")
    for x in look:
        caught = [n for _, h in try_handlers_covering(c, x) for n in handler_names(h)]
        if any(n.split(".")[-1] in ("ClassNotFound", "Exception", "ValueError") for n in caught):
            ctx.ok("R3", c.site(x), "check_file: lexer lookup inside try/except ClassNotFound (same as scan)")
        else:
            ctx.viol("R3", "check_file/classnotfound", c.site(x), "check_file does not handle ClassNotFound: an unsupported file name crashes check while scan skips it")
    gate = False
    for g in guards_of(c, sc_["scan_file_node"]):
        kind, _ = classify_guard(prj, c, g)
        if kind == "language-supported":
            gate = True
    if gate:
        ctx.ok("R3", c.site(sc_["scan_file_node"]), "check_file: measured only if the lexer's name is in Languages.by_name (same gate as scan)")
    else:
        ctx.viol("R3", "check_file/language-gate", c.site(sc_["scan_file_node"]), "check_file measures without the `lexer_name in Languages.by_name` gate of scan")


def rule_R4(ctx, prj):
    ctx.rule("R4", "between scan_file and the printed line the measurement is untouched: check keeps a filtered/sorted "
                   "sub-list of scan_file's result, nothing assigns to a measurement's fields or builds new ones, and "
                   "format_measurement prints start.line, start.column, value and unit_name as plain field reads", floor=5)
    c = prj.func(f"{CK}:check_file")
    adds = [x for x in c.calls() if isinstance(x.func, ast.Attribute) and x.func.attr == "add" and "check_result" in unparse(x.func.value)]
    if not adds:
        raise AnalysisError("check_file: check_result.add not found")
    arg = expand(c, adds[0].args[1])
    inner = arg
    while isinstance(inner, ast.Call) and attr_chain(inner.func) in ("sorted", "list", "reversed") and inner.args:
        inner = inner.args[0]
    ok = False
    if isinstance(inner, ast.Name):
        inner = expand(c, inner)
    if isinstance(inner, (ast.ListComp, ast.GeneratorExp)) and len(inner.generators) == 1:
        g = inner.generators[0]
        src = unparse(expand(c, g.iter))
        ok = isinstance(inner.elt, ast.Name) and inner.elt.id == unparse(g.target) and "scan_file(" in src
    if ok:
        ctx.ok("R4", c.site(adds[0]), "check_file: the listed measurements are elements of scan_file's result (filtered, sorted)")
    else:
        ctx.viol("R4", "check_file/listed-measurements", c.site(adds[0]), f"the list handed to CheckResult.add is {unparse(arg)[:90]}: not a plain sub-list of scan_file's result")
    for q in (f"{CK}:check_file", "codelimit.common.CheckResult:CheckResult.add", "codelimit.common.CheckResult:CheckResult.report",
              "codelimit.common.utils:format_measurement"):
        f = prj.func(q)
        bad = None
        for n in f.walk():
            if isinstance(n, ast.Call) and attr_chain(n.func) in ("Measurement", "Location"):
                bad = n
            if isinstance(n, (ast.Assign, ast.AugAssign)):
                for t in (n.targets if isinstance(n, ast.Assign) else [n.target]):
                    if isinstance(t, ast.Attribute) and t.attr in ("value", "line", "column", "unit_name", "start", "end"):
                        bad = n
        if bad is not None:
            ctx.viol("R4", f"{f.local}/measurement-modified", f.site(bad), f"{f.local} rebuilds or modifies a measurement: {unparse(bad)[:70]}")
        else:
            ctx.ok("R4", f.site(), f"{f.local}: measurements only read")
    fm = prj.func("codelimit.common.utils:format_measurement")
    mp = fm.params()[1]
    shown = {}
    # everything that is turned into text: str(E) calls, and bare field reads handed to the text builder
    for call in fm.calls():
        cands = []
        if attr_chain(call.func) == "str" and call.args:
            cands.append(call.args[0])
        if isinstance(call.func, ast.Attribute) and call.func.attr in ("append", "assemble", "join", "format"):
            for a in call.args:
                cands.extend(a.elts if isinstance(a, ast.Tuple) else [a])
        for a in cands:
            if isinstance(a, ast.Call) and attr_chain(a.func) == "str" and a.args:
                a = a.args[0]
            t = term(fm, a)
            if t.startswith(mp + ".") and all(ch.isalnum() or ch in "._" for ch in t):
                shown[t] = call
            elif isinstance(a, ast.BinOp) and mp in {x.id for x in ast.walk(expand(fm, a)) if isinstance(x, ast.Name)}:
                ctx.viol("R4", "format_measurement/arithmetic", fm.site(call), f"format_measurement prints {t[:60]}, not a plain field of the measurement")
    need = [f"{mp}.start.line", f"{mp}.start.column", f"{mp}.value", f"{mp}.unit_name"]
    miss = [n for n in need if n not in shown]
    if miss:
        ctx.viol("R4", "format_measurement/fields", fm.site(), f"format_measurement does not print {miss} as plain field reads")
    else:
        ctx.ok("R4", fm.site(), "format_measurement prints start.line, start.column, value, unit_name unchanged")


def rule_R7_pipelines(ctx, prj) -> bool:
    """what lex / scan_file / CheckResult.add are handed for the same (not UTF-8) file in scan and in check"""
    from ..absint import PyRaise, Sym, Unknown
    from .. import walk_eval as W
    ctx.rule("R7", "the same file (bytes that are not valid UTF-8) evaluated through scan_path and through check_command: both hand "
                   "lex the same lexer, the same decoded text and filter_comments=False, both hand scan_file lex's result and the "
                   "language registered for the lexer; check lists exactly the measured functions longer than 30 lines, longest "
                   "first, as the very objects scan_file returned (lengths 31, 7, 64, 30, 31 -> 64, 31, 31)", floor=4)
    c = prj.func(f"{CK}:check_file")
    try:
        labs, ms = W.pipelines(prj)
        sig = {}
        for name, lab in labs.items():
            lx = [x for x in lab.calls if x[0] == "lex"]
            sf = [x for x in lab.calls if x[0] == "scan_file"]
            if len(lx) != 1 or len(sf) != 1:
                ctx.viol("R7", f"{name}/pipeline", c.site(), f"{name}: the file is lexed {len(lx)} time(s) and measured {len(sf)} time(s); required once each")
                return True
            b = lx[0][1]
            toks, lang = (sf[0][1] + [None, None])[:2]
            if "tokens" in sf[0][2]:
                toks = sf[0][2]["tokens"]
            if "language" in sf[0][2]:
                lang = sf[0][2]["language"]
            sig[name] = dict(code=b.get("code"), filter_comments=b.get("filter_comments"), lexer=getattr(b.get("lexer"), "fields", {}).get("name"),
                             tokens_from_lex=toks is lx[0][2], language=getattr(lang, "name", lang))
        a, b = sig["scan"], sig["check"]
        if a["code"] != b["code"]:
            ctx.viol("R7", "check_file/decoding", c.site(), f"scan lexes {a['code']!r} but check {b['code']!r}: the two decode the file differently")
        else:
            ctx.ok("R7", c.site(), "decoding: both lex the same text of a file that is not valid UTF-8 (neither crashes)")
        if a["filter_comments"] is not False or b["filter_comments"] is not False:
            ctx.viol("R7", "check_file/lex-filter", c.site(), f"scan calls lex(..., filter_comments={a['filter_comments']}), check lex(..., filter_comments={b['filter_comments']}); required False in both: "
                     f"comment tokens (and with them the suppression marker) are visible to only one of the two, or to none")
        else:
            ctx.ok("R7", c.site(), "lexing: lex(lexer, text, False) in both")
        for name in ("scan", "check"):
            s_ = sig[name]
            if not s_["tokens_from_lex"]:
                ctx.viol("R7", f"{name}/tokens", c.site(), f"{name}: scan_file does not receive lex's result")
            elif s_["language"] != "language:" + str(s_["lexer"]):
                ctx.viol("R7", f"{name}/language", c.site(), f"{name}: scan_file receives the language {s_['language']!r} for a file lexed as {s_['lexer']!r}")
            else:
                ctx.ok("R7", c.site(), f"{name}: scan_file(lex's tokens, Languages.by_name[{s_['lexer']!r}])")
        adds = [x for x in labs["check"].calls if x[0] == "add"]
        if len(adds) != 1:
            ctx.viol("R7", "check_file/listed-measurements", c.site(), f"CheckResult.add is called {len(adds)} time(s) for one file")
        else:
            lst = adds[0][1][1] if len(adds[0][1]) > 1 else adds[0][2].get("measurements")
            lst = list(lst.rest()) if hasattr(lst, "rest") else list(lst)
            want = [ms[2], ms[0], ms[4]]
            if [x.fields.get("value") if isinstance(x, Sym) else x for x in lst] != [64, 31, 31]:
                ctx.viol("R7", "check_file/listed-measurements", c.site(), f"for measured lengths 31, 7, 64, 30, 31 check lists {[getattr(x, 'fields', {}).get('value', x) for x in lst]}; "
                         f"required the functions longer than 30 lines, longest first: [64, 31, 31]")
            elif not all(any(x is m for m in ms) for x in lst):
                ctx.viol("R7", "check_file/listed-measurements", c.site(), "check lists copies or rebuilt measurements, not the objects scan_file returned")
            else:
                ctx.ok("R7", c.site(), "check lists scan_file's own measurement objects with length > 30, longest first")
    except (Unknown, PyRaise) as e:
        ctx.info(f"pipelines not evaluable ({type(e).__name__}: {e}); structural rules R3/R4 decide")
        ctx.rule("R7", "pipelines not evaluable by the interpreter: structural rules R3/R4 decide", floor=0)
        ctx.violations[:] = [v for v in ctx.violations if v.rule != "R7"]
        return False
    rule_R4_print(ctx, prj)
    return True


def rule_R4_print(ctx, prj):
    """format_measurement prints the measurement's own fields (evaluated with the rich calls recorded)"""
    from ..absint import PyRaise, Sym, Unknown
    from ..evalsite import deep_strs, run_site
    fm = prj.func("codelimit.common.utils:format_measurement")
    ctx.rule("R4", "format_measurement prints start.line, start.column, value and unit_name of the measurement it is given "
                   "(evaluated on a measurement with distinct figures)", floor=1)
    from ..evalsite import measurement
    m = measurement(4711, "fn_tag", prj, (1234, 56), (7777, 88))
    try:
        run = run_site(prj, fm, ["some/path.py", m])
        texts = deep_strs([run.result] + [a for _, aa, kw in run.effects for a in list(aa) + list(kw.values())])
        joined = " ".join(texts)
        missing = [w for w in ("some/path.py", "1234", "56", "4711", "fn_tag") if w not in joined]
        def flat(a):
            """the text of an argument: a string, or the literal pieces of an f-string whose other pieces are objects (styles ...)"""
            if isinstance(a, str):
                return a
            if isinstance(a, Sym) and a.name == "fstring":
                return "".join(x if isinstance(x, str) else "\u27e8obj\u27e9" for x in a.fields.get("parts", []))
            return None
        markup = [(nm, flat(a)) for nm, aa, kw in run.effects for a in list(aa) + list(kw.values())
                  if flat(a) is not None and "some/path.py" in flat(a) and (nm.endswith("from_markup") or nm.endswith(".print") or nm.endswith("rich.print") or nm.endswith("markup.render"))]
        if markup:
            ctx.viol("R4", "format_measurement/path-as-markup", fm.site(), f"the file path is handed to {markup[0][0]} inside the string {markup[0][1][:60]!r}, which interprets console markup: "
                     f"a path segment in square brackets (pages/[slug]/page.ts) is swallowed as a style tag and the line names a file that was not measured")
        elif missing:
            ctx.viol("R4", "format_measurement/fields", fm.site(), f"the printed line lacks {missing} of (path, start line 1234, start column 56, length 4711, name fn_tag)")
        else:
            ctx.ok("R4", fm.site(), "format_measurement: path, start line, start column, length and name of the measurement")
    except (Unknown, PyRaise) as e:
        ctx.info(f"format_measurement not evaluable ({e})")
        ctx.ok("R4", fm.site(), "format_measurement not evaluable: not judged")


def rule_R6_evaluated(ctx, prj) -> bool:
    from ..absint import PyRaise, Unknown
    from .. import walk_eval as W
    ctx.rule("R6", "check_command evaluated on the same virtual tree as scan_path (C11-R6), working directory at the root: reached "
                   "through the root or a sub-directory, relative or absolute, check analyses exactly the files scan analyses below "
                   "that directory; named as a relative file path, every file scan analyses is checked, every excluded or "
                   "unsupported file is not (a hidden file named explicitly is not judged)", floor=6)
    fi = prj.func(f"{CK}:check_command")
    try:
        scan = None
        for desc, got, roots, exargs in W.scan_scenarios(prj)[:1]:
            scan = got
        for desc, got, want in W.check_dir_scenarios(prj):
            want = [f for f in want if scan is None or f in scan] if scan is not None else want
            extra = [x for x in got if x not in want]
            missing = [x for x in want if x not in got]
            if extra:
                why = W.why_not(extra[0])
                ctx.viol("R6", f"check_command/walk/analyses-{why.split()[0]}", fi.site(), f"directory given as {desc}: check analyses {extra[0]}, which scan skips because it is {why} ({len(extra)} such file(s))")
            elif missing:
                ctx.viol("R6", "check_command/walk/skips-analysed", fi.site(), f"directory given as {desc}: {missing[0]} is analysed by scan but not checked ({len(missing)} missing)")
            else:
                ctx.ok("R6", fi.site(), f"directory given as {desc}: the same {len(want)} files as scan")
        bad = None
        n = 0
        for rel, analysed, kind, got in W.check_file_scenarios(prj):
            n += 1
            if kind == "must" and not analysed:
                bad = bad or (rel, "is analysed by scan but not checked when named as a relative file path", "check_command/file/skips-analysed")
            elif kind == "must-not" and analysed:
                why = W.why_not(W.ROOT + "/" + rel)
                bad = bad or (rel, f"is checked when named as a relative file path although scan skips it: it is {why}", f"check_command/file/analyses-{why.split()[0]}")
            elif len(got) > (1 if analysed else 0):
                bad = bad or (rel, f"naming it makes check analyse {got}", "check_command/file/other-files")
        if bad:
            ctx.viol("R6", bad[2], fi.site(), f"{bad[0]} {bad[1]}")
        else:
            ctx.ok("R6", fi.site(), f"{n} files named as relative paths: checked exactly when scan analyses them (hidden names not judged)")
            ctx.ok("R6", fi.site(), "file arguments and directory walks agree with scan")
    except (Unknown, PyRaise) as e:
        ctx.info(f"check_command not evaluable ({type(e).__name__}: {e}); structural rules R1/R2 decide")
        ctx.rule("R6", "check_command not evaluable by the interpreter: structural rules R1/R2 decide", floor=0)
        ctx.violations[:] = [v for v in ctx.violations if v.rule != "R6"]
        return False
    return True


def run(ctx, prj: Project):
    ctx.explanation = (
        "Cross-check of the two sibling pipelines (Scanner.scan_path/_scan_file/_analyze_file vs commands.check."
        "check_command/_handle_file_path/check_file): a signature is extracted from each (hidden predicate, exclusion "
        "call and its arguments' provenance, lexer lookup and language gate, decoding function, lex constant, measuring "
        "call, post-processing of measurements) and compared component by component. Output text equality at run time is "
        "not decided.")
    ctx.not_decided = ["equality of the printed text at run time", "the > 30 threshold itself (C02-R1)"]
    ctx.trust("CPython ast", "os.walk honours in-place edits only")
    if not rule_R6_evaluated(ctx, prj):
        w = rule_R1(ctx, prj)
        rule_R2(ctx, prj, w)
    if rule_R7_pipelines(ctx, prj):
        return
    rule_R3(ctx, prj)
    rule_R4(ctx, prj)
