"""C10 - A damaged or partial cache never breaks or taints the next scan (mechanism)."""
from __future__ import annotations

import ast

from ..core import (AnalysisError, FuncInfo, Project, attr_chain, body_exits, const_str, enclosing, exc_is_caught, expand,
                    guards_of, handler_names, local_defs, try_handlers_covering, unparse)
from ..jsonio import Reader

SCAN = "codelimit.commands.scan"
READ_EXC = ["UnicodeDecodeError"]   # a write cut inside a multi-byte character; OSError (permissions) is outside the property


def reader_exceptions(prj: Project, r: Reader, extra_entry=()) -> dict[str, str]:
    """Exception classes the reader can raise on arbitrary text, from the constructs in its body."""
    out = {}
    fns = r.functions() + [prj.func(q) for q in extra_entry]
    for f in fns:
        for n in f.walk():
            if isinstance(n, ast.Call):
                nm = prj.resolve_callee_name(f, n)
                if nm in ("ext:json:loads", "ext:json.loads"):
                    out.setdefault("ValueError", f"json.loads at {f.site(n)}")
                if isinstance(n.func, ast.Attribute) and n.func.attr in ("items", "values", "keys", "get"):
                    out.setdefault("AttributeError", f".{n.func.attr}() on an untrusted value at {f.site(n)}")
                if any(k.arg is None for k in n.keywords):
                    out.setdefault("TypeError", f"{unparse(n.func)}(**untrusted) at {f.site(n)}")
            if isinstance(n, ast.Subscript) and isinstance(n.ctx, ast.Load):
                out.setdefault("KeyError", f"subscript at {f.site(n)}")
                out.setdefault("TypeError", f"subscript of a non-container at {f.site(n)}")
                out.setdefault("IndexError", f"subscript of a list at {f.site(n)}")
    return out


def covered(prj: Project, f: FuncInfo, node, exc: str, entry: FuncInfo, depth=0):
    """Is `exc` raised at `node` in f caught before it leaves `entry`?  -> (bool, handler|None)"""
    for t, h in try_handlers_covering(f, node):
        if exc_is_caught(exc, handler_names(h)):
            return True, (f, h)
    if f is entry or depth > 4:
        return False, None
    callers = [prj.funcs[q] for q in prj.callgraph.callers_of(f.qual) if prj.funcs[q].module is entry.module]
    if not callers:
        return False, None
    res = []
    for g in callers:
        for c in prj.callgraph.sites.get((g.qual, f.qual), []):
            res.append(covered(prj, g, c, exc, entry, depth + 1))
    if res and all(r[0] for r in res):
        return True, res[0][1]
    return False, None


def rule_R1(ctx, prj, r: Reader):
    ctx.rule("R1", "on the scan path every read of the cache file (read_text) and every parse of it (ReportReader."
                   "from_json / get_report_version) is enclosed by a handler that covers the whole set of exceptions "
                   "these operations can raise on arbitrary bytes (OSError, UnicodeDecodeError; ValueError, KeyError, "
                   "TypeError, IndexError, AttributeError), and the handler's continuation is 'no cache'", floor=6)
    entry = prj.func(f"{SCAN}:scan_command")
    mod = entry.module
    reach = [prj.funcs[q] for q in prj.callgraph.reachable([entry.qual]) if prj.funcs[q].module is mod]
    parse_exc = reader_exceptions(prj, r, ("codelimit.common.report.ReportReader:ReportReader.get_report_version",))
    ctx.extra["reader_exception_catalogue"] = parse_exc
    sites = []
    for f in reach:
        for c in f.calls():
            nm = prj.resolve_callee_name(f, c)
            if isinstance(c.func, ast.Attribute) and c.func.attr in ("read_text", "read_bytes") and "report" in unparse(c.func.value).lower():
                sites.append((f, c, "read", READ_EXC))
            elif attr_chain(c.func) == "open" and c.args and "report" in unparse(c.args[0]).lower() and \
                    not (len(c.args) > 1 and (const_str(c.args[1]) or "r")[0] in "wax"):
                sites.append((f, c, "read", READ_EXC))
            elif nm.endswith(":ReportReader.from_json") or nm.endswith(":ReportReader.get_report_version") or nm.endswith(":read_cached_report"):
                sites.append((f, c, "parse", sorted(parse_exc)))
    if not any(k == "parse" for _, _, k, _ in sites):
        raise AnalysisError("scan_command no longer reaches a cache parse (ReportReader.from_json) inside commands/scan.py")
    handlers = {}
    for f, c, kind, excs in sites:
        for e in excs:
            ok, h = covered(prj, f, c, e, entry)
            key = f"{f.local}/{kind}:{unparse(c.func)[:40]}/{e}"
            if ok:
                handlers[id(h[1])] = h
                ctx.ok("R1", f.site(c), f"{f.local}: {e} from {unparse(c)[:50]} is handled")
            else:
                why = parse_exc.get(e, "text-mode read of arbitrary bytes" if e == "UnicodeDecodeError" else "file system")
                ctx.viol("R1", f"{f.local}/{kind}/{e}", f.site(c),
                         f"{e} raised by {unparse(c)[:60]} ({why}) is not caught on the way back to scan_command: a cache file "
                         f"that is empty, truncated or of the wrong shape makes this and every later scan crash")
    # continuation of each covering handler: "no cache"
    for f, h in handlers.values():
        ex = body_exits(h.body)
        rets = [n for n in h.body if isinstance(n, ast.Return)]
        none_ret = any(r.value is None or (isinstance(r.value, ast.Constant) and r.value.value is None) for r in rets)
        assigns_none = any(isinstance(n, ast.Assign) and isinstance(n.value, ast.Constant) and n.value.value is None for n in h.body)
        only_pass = all(isinstance(n, ast.Pass) for n in h.body)
        if ex == "raise":
            ctx.viol("R1", f"{f.local}/handler-reraises", f.site(h), "the handler around the cache read re-raises: the damaged cache still aborts the scan")
        elif none_ret or assigns_none:
            ctx.ok("R1", f.site(h), f"{f.local}: handler yields 'no cache' (None)")
        elif only_pass:
            # falls through: the names bound in the try body must not be used afterwards
            tr = getattr(h, "_suppress_with", None) or [t for t in f.walk() if isinstance(t, ast.Try) and h in t.handlers][0]
            bound = {x.id for s in tr.body for x in ast.walk(s) if isinstance(x, ast.Name) and isinstance(x.ctx, ast.Store)}
            after = False
            used = set()
            for st in ast.walk(f.node):
                pass
            blk = f.parents[tr]
            for fld in ("body", "orelse"):
                lst = getattr(blk, fld, None)
                if isinstance(lst, list) and tr in lst:
                    for st in lst[lst.index(tr) + 1:]:
                        used |= {x.id for x in ast.walk(st) if isinstance(x, ast.Name) and isinstance(x.ctx, ast.Load)}
            pre = {x for x in bound if any(s.lineno < tr.lineno for _, s in local_defs(f, x))}
            if (bound - pre) & used:
                ctx.viol("R1", f"{f.local}/handler-falls-through", f.site(h),
                         f"after the handler the code uses {sorted((bound - pre) & used)}, bound only inside the try: unbound when the cache is damaged")
            else:
                ctx.ok("R1", f.site(h), f"{f.local}: handler falls through to the 'no cache' path")
        else:
            raise AnalysisError(f"{f.site(h)}: continuation of the cache-read handler not understood")


def rule_R2(ctx, prj, r: Reader):
    ctx.rule("R2", "a rejected cache cannot taint: the reader is all-or-nothing - no handler inside ReportReader.from_json "
                   "(or its helpers) swallows an error and continues with a partially built report", floor=1)
    n = 0
    for f in r.functions():
        for t in [x for x in f.walk() if isinstance(x, ast.Try)]:
            for h in t.handlers:
                n += 1
                if body_exits(h.body) == "raise":
                    ctx.ok("R2", f.site(h), f"{f.name}: handler re-raises")
                else:
                    ctx.viol("R2", f"{f.name}/swallowing-handler", f.site(h),
                             f"ReportReader.{f.name} catches {', '.join(handler_names(h))} and carries on: records that failed to parse are "
                             f"dropped or left half-registered in the codebase while the report is still returned, so a damaged cache "
                             f"is reused instead of being rejected as a whole")
    if n == 0:
        ctx.ok("R2", r.functions()[0].site(), "ReportReader.from_json and helpers contain no exception handler: any error rejects the whole cache")


def rule_R3(ctx, prj):
    ctx.rule("R3", "the cache write cannot block a later scan: the report is written unconditionally, as the whole "
                   "document of one to_json() call, in truncating mode (no exclusive-create 'x', no append 'a'); "
                   "directory creation is guarded by a non-existence test or exist_ok", floor=2)
    entry = prj.func(f"{SCAN}:scan_command")
    mod = entry.module
    reach = [prj.funcs[q] for q in prj.callgraph.reachable([entry.qual]) if prj.funcs[q].module is mod]
    writes = []
    for f in reach:
        for c in f.calls():
            if isinstance(c.func, ast.Attribute) and c.func.attr in ("write_text", "write_bytes") and c.args:
                writes.append((f, c, c.args[0], c.func.value))
            if isinstance(c.func, ast.Attribute) and c.func.attr == "write" and c.args and isinstance(c.func.value, ast.Name):
                writes.append((f, c, c.args[0], c.func.value))
            # open modes
            mode = None
            if attr_chain(c.func) == "open" and len(c.args) > 1:
                mode = const_str(c.args[1])
            if isinstance(c.func, ast.Attribute) and c.func.attr == "open" and c.args:
                mode = const_str(c.args[0])
            for k in c.keywords:
                if k.arg == "mode":
                    mode = const_str(k.value)
            if mode is not None and (attr_chain(c.func) == "open" or (isinstance(c.func, ast.Attribute) and c.func.attr == "open")):
                if "x" in mode:
                    ctx.viol("R3", f"{f.local}/exclusive-create", f.site(c),
                             f"`{unparse(c)[:70]}` creates its file exclusively: a file left behind by a scan that was interrupted during "
                             f"the cache write makes every later scan fail with FileExistsError")
                elif "a" in mode:
                    ctx.viol("R3", f"{f.local}/append-mode", f.site(c), f"`{unparse(c)[:70]}` appends to the cache instead of replacing it")
                else:
                    ctx.ok("R3", f.site(c), f"{f.local}: {unparse(c)[:50]} opens in mode {mode!r}")
            if isinstance(c.func, ast.Attribute) and c.func.attr in ("mkdir", "makedirs") or attr_chain(c.func) in ("os.mkdir", "os.makedirs"):
                exist_ok = any(k.arg == "exist_ok" and isinstance(k.value, ast.Constant) and k.value.value is True for k in c.keywords)
                gs = guards_of(f, c)
                guarded = any("exists()" in unparse(g.test) or "is_dir()" in unparse(g.test) for g in gs)
                if exist_ok or guarded:
                    ctx.ok("R3", f.site(c), f"{f.local}: directory creation {'exist_ok' if exist_ok else 'guarded by a non-existence test'}")
                else:
                    ctx.viol("R3", f"{f.local}/mkdir-unguarded", f.site(c), "the cache directory is created unconditionally: an existing directory (e.g. after an interrupted scan) makes the scan fail")
            if isinstance(c.func, ast.Attribute) and c.func.attr == "touch" and any(k.arg == "exist_ok" and isinstance(k.value, ast.Constant) and k.value.value is False for k in c.keywords):
                ctx.viol("R3", f"{f.local}/touch-exclusive", f.site(c), "touch(exist_ok=False) fails on a leftover file")
            if attr_chain(c.func) in ("os.link", "os.symlink", "os.mkfifo"):
                ctx.viol("R3", f"{f.local}/link", f.site(c), f"{attr_chain(c.func)} fails when its target is left over from an interrupted scan")
    # the report document write
    doc_writes = [(f, c, a, recv) for f, c, a, recv in writes if "to_json" in unparse(expand(f, a))]
    if not doc_writes:
        raise AnalysisError("scan_command: no write of ReportWriter(...).to_json() found")
    for f, c, a, recv in doc_writes:
        conds = [g for g in guards_of(f, c)]
        txt = unparse(expand(f, a))
        single = txt.count("to_json(") == 1 and "+" not in txt
        if conds:
            ctx.viol("R3", f"{f.local}/conditional-write", f.site(c),
                     f"the report is written only when {', '.join(repr(g) for g in conds)[:120]}: a damaged cache may never be replaced")
        elif not single:
            ctx.viol("R3", f"{f.local}/piecewise-write", f.site(c), f"the cache is not written as the document of a single to_json() call: {txt[:80]}")
        else:
            ctx.ok("R3", f.site(c), f"{f.local}: report document written unconditionally from one to_json() call")


def rule_R4(ctx, prj):
    """evaluated: a cache document with any one key missing is rejected as a whole, or offers exactly the entries of the intact one"""
    import json
    from ..absint import PyRaise, Sym, Unknown
    from .. import cache_eval as CE
    ctx.rule("R4", "wrong shape, evaluated: for a cache document written by the repo's writer with any single key removed (every "
                   "key of every level: report, codebase, tree folders, file entries, measurements, locations), "
                   "_read_cached_report either yields no cache, or a report of another version (never reused), or a report that "
                   "offers only file entries of the intact document, unchanged - it never offers an entry with fewer or other "
                   "functions", floor=20)
    rd = prj.func("codelimit.commands.scan:_read_cached_report")
    try:
        cur = CE.current_version(prj)
        doc = json.loads(CE.cache_documents(prj)["running version"])
        intact = CE.read_cached(prj, json.dumps(doc), want_object=True)
        if not isinstance(intact, Sym):
            raise Unknown(f"the intact document is read as {intact!r}")
        ref = CE.entries_of(prj, intact)
        if not ref or not any(e[3] for e in ref.values()):
            raise Unknown("the intact document offers no entries with functions")
        paths = sorted(set(CE.key_paths(doc)), key=repr)
        results = []
        for path in paths:
            r = CE.read_cached(prj, json.dumps(CE.without(doc, path)), want_object=True)
            if r is None or isinstance(r, str):
                results.append((path, "rejected" if r is None else r, None))
                continue
            if not isinstance(r, Sym):
                raise Unknown(f"_read_cached_report returns {r!r}")
            if r.fields.get("version") != cur:
                results.append((path, "other version", None))
                continue
            got = CE.entries_of(prj, r)
            # an entry that is absent is analysed afresh; an entry that is offered must be the one that was written
            results.append((path, "same entries" if all(ref.get(k) == v for k, v in got.items()) else "differs", got))
    except (Unknown, PyRaise) as e:
        ctx.info(f"R4: cache reader not evaluable ({type(e).__name__}: {e}); the structural rules R1/R2 decide")
        ctx.rule("R4", "cache reader not evaluable by the interpreter: structural rules R1/R2 decide", floor=0)
        return
    for path, verdict, got in results:
        ptxt = "/".join(str(x) for x in path).encode("unicode_escape").decode()
        if verdict == "differs":
            k = next(k for k in got if got[k] != ref.get(k))
            ctx.viol("R4", f"missing-key/{'/'.join('*' if isinstance(x, int) or i == 2 and path[1] == 'files' or i == 2 and path[1] == 'tree' else str(x) for i, x in enumerate(path))}",
                     rd.site(), f"a cache document without the key {ptxt} is accepted as a cache of the running version, but its entry "
                                f"{k!r} reads {str(got.get(k))[:160]} instead of {str(ref.get(k))[:160]}: the next scan reuses it for an "
                                f"unchanged file and reports other functions than a fresh scan, and writes them back to the cache")
        elif verdict.startswith("raises"):
            ctx.viol("R4", f"missing-key-raises/{ptxt}", rd.site(), f"a cache document without the key {ptxt} makes _read_cached_report {verdict}: the scan fails")
        else:
            ctx.ok("R4", rd.site(), f"cache without key {ptxt}: {verdict}")


MARKERS = {"CACHEDIR.TAG": "Signature: 8a477f597d28d172789f06886806bc55", ".gitignore": None}


def _scan_job(job):
    """(repo root, state, expected document) -> verdict string; evaluated in a worker process"""
    from ..absint import Unknown
    from ..core import Project
    from .. import scan_eval as S
    root, state, fresh, want_files, markers = job
    prj = _PRJ.get(root)
    if prj is None:
        prj = _PRJ[root] = Project(root)
    try:
        r = S.scan(prj, state)
    except Unknown as e:
        return ("unknown", str(e), None)
    if r.raised:
        return ("raises", r.raised, None)
    doc = r.state.texts.get(S.DOC)
    files = tuple(sorted(r.state.tree.get(S.CACHE, ([], []))[1]))
    if doc != fresh:
        return ("differs", _first_doc_difference(fresh, doc), r.state)
    if files != want_files:
        return ("incomplete", f"the cache directory holds {list(files)}; a complete scan leaves {list(want_files)}", r.state)
    for m, t in markers:
        if r.state.texts.get(S.CACHE + "/" + m) != t:
            return ("incomplete", f"{m} reads {r.state.texts.get(S.CACHE + '/' + m)!r}; a complete scan leaves {t!r}", r.state)
    return ("ok", "", r.state)


_PRJ: dict = {}


def _first_doc_difference(a, b) -> str:
    if b is None:
        return "no cache document was written"
    import json
    try:
        da, db = json.loads(a), json.loads(b)
    except ValueError:
        return "the cache document written is not JSON"

    def walk(x, y, path):
        if type(x) is not type(y):
            return f"{path}: {y!r} instead of {x!r}"
        if isinstance(x, dict):
            for k in list(x) + [k for k in y if k not in x]:
                if k not in x or k not in y:
                    return f"{path}/{k}: {'missing' if k not in y else 'extra'}"
                d = walk(x[k], y[k], f"{path}/{k}")
                if d:
                    return d
            return None
        if isinstance(x, list):
            if len(x) != len(y):
                return f"{path}: {len(y)} items instead of {len(x)}"
            for i, (p, q) in enumerate(zip(x, y)):
                d = walk(p, q, f"{path}/{i}")
                if d:
                    return d
            return None
        return None if x == y else f"{path}: {y!r} instead of {x!r}"
    return (walk(da, db, "") or "the documents differ in layout only")[:300]


def rule_R5_history(ctx, prj, thorough: bool):
    """scan_command evaluated end to end on a virtual file system, over every state an interrupted scan can leave and
    every structural fault of the cache; closure over the states reached gives the interleavings of faults and scans"""
    import concurrent.futures as cf
    import copy
    import json
    import os
    from ..absint import PyRaise, Unknown
    from .. import cache_eval as CE
    from .. import scan_eval as S
    ctx.rule("R5", "whole histories, evaluated: scan_command interpreted on a virtual file system (three source files; lexing and "
                   "measuring replaced by a stub that depends on the file). From (a) every state an interrupted first scan or "
                   "re-scan can leave - after each file-system operation and with each write cut short after every character "
                   f"({'all offsets' if thorough else 'every 23rd offset, all offsets near both ends'}) - (b) every "
                   "structural fault of the cache (empty, not JSON, other JSON types, undecodable bytes, each key of each level "
                   "missing, each value replaced by null / a string or number / a list / an object, directory without the "
                   "document / without marker files / empty) and (c) every state reached from those (closure = interleavings "
                   "of faults and scans): the next scan completes, writes exactly the document of a fresh scan and leaves the "
                   "cache directory with the document and both marker files", floor=100)
    sc = prj.func("codelimit.commands.scan:scan_command")
    try:
        first = S.scan(prj, S.State())
        if first.raised:
            ctx.viol("R5", "scan/first", sc.site(), f"the very first scan of a directory raises {first.raised}")
            return
        fresh = first.state.texts.get(S.DOC)
        if fresh is None or S.normal(fresh) is None:
            raise Unknown("the first scan writes no JSON document at .codelimit_cache/codelimit.json")
        S1 = first.state
        want_files = tuple(sorted(S1.tree[S.CACHE][1]))
        markers = tuple((m, S1.texts.get(S.CACHE + "/" + m)) for m in want_files if m != "codelimit.json")
        again = S.scan(prj, S1)
        if again.raised or again.state.texts.get(S.DOC) != fresh:
            ctx.viol("R5", "scan/second", sc.site(), "a second scan of an unchanged directory " +
                     (f"raises {again.raised}" if again.raised else f"writes another document: {_first_doc_difference(fresh, again.state.texts.get(S.DOC))}"))
            return
        if any(p.startswith(S.ROOT + "/") and not p.startswith(S.CACHE) for p in again.read):
            ctx.info(f"R5: the second scan read {again.read} again (no reuse)")
        ctx.ok("R5", sc.site(), f"first scan: operations {[(o[0], o[1].rsplit('/', 1)[-1]) for o in first.ops]}; second scan reuses every entry and writes the same document")
    except (Unknown, PyRaise) as e:
        ctx.info(f"R5: scan_command not evaluable ({type(e).__name__}: {e}); the structural rules R1-R3 decide")
        ctx.rule("R5", "scan_command not evaluable by the interpreter: structural rules R1-R3 decide", floor=0)
        return False
    stride = 1 if thorough else 23
    scenarios = []
    cs, _ = S.crash_states(S.State(), first.ops, stride)
    scenarios += [("first scan interrupted: " + d, st) for d, st in cs]
    cs, _ = S.crash_states(S1, again.ops, stride)
    scenarios += [("re-scan interrupted: " + d, st) for d, st in cs]
    # a re-scan after a source file changed (the document written differs from the one on disk)
    doc = json.loads(fresh)
    # structural faults
    for desc, text in (("empty file", ""), ("not JSON", "{ truncated"), ("JSON null", "null"), ("JSON list", "[]"), ("JSON object without keys", "{}"),
                       ("JSON number", "42"), ("JSON string", '"text"'), ("a blank", " "), ("a NUL byte", "\x00")):
        scenarios.append((f"cache document replaced by {desc}", S1.with_file(S.DOC, text)))
    # documents longer than the one a scan writes (a writer that does not truncate leaves their tail behind)
    scenarios.append(("cache document followed by a stray tail", S1.with_file(S.DOC, fresh + "\n}}}} stray tail " + "x" * 40)))
    scenarios.append(("cache document replaced by garbage twice as long", S1.with_file(S.DOC, "#" * (2 * len(fresh)))))
    scenarios.append(("cache document replaced by a longer JSON document of another shape", S1.with_file(S.DOC, json.dumps({"something": "else " * (len(fresh) // 4)}))))
    scenarios.append(("cache directory without the document", S1.with_file(S.DOC, None)))
    for m in want_files:
        if m != "codelimit.json":
            scenarios.append((f"cache directory without {m}", S1.with_file(S.CACHE + "/" + m, None)))
            scenarios.append((f"{m} empty", S1.with_file(S.CACHE + "/" + m, "")))
    empty = S1.copy()
    for m in want_files:
        empty = empty.with_file(S.CACHE + "/" + m, None)
    scenarios.append(("cache directory empty", empty))
    only_doc = S1.copy()
    for m in want_files:
        if m != "codelimit.json":
            only_doc = only_doc.with_file(S.CACHE + "/" + m, None)
    scenarios.append(("cache directory with the document but without marker files", only_doc))

    def put(cur, path, val):
        d = copy.deepcopy(cur)
        c = d
        for k in path[:-1]:
            c = c[k]
        c[path[-1]] = val
        return d

    def get(cur, path):
        for k in path:
            cur = cur[k]
        return cur
    for path in sorted(set(CE.key_paths(doc)), key=repr):
        ptxt = "/".join(str(x) for x in path)
        scenarios.append((f"key {ptxt} missing", S1.with_file(S.DOC, json.dumps(CE.without(doc, path)))))
        old = get(doc, path)
        alts = [None, 7 if isinstance(old, str) else "x", {} if isinstance(old, list) else [], [] if isinstance(old, dict) else {}]
        if isinstance(old, int) and not isinstance(old, bool):
            # values of another JSON type that compare equal to integers (true == 1, 1.0 == 1): a reader that looks values up by
            # equality (a memo, a set) must not take them for the integer
            alts += [True, 1.0, float(old)]
        for alt in alts:
            scenarios.append((f"value of {ptxt} replaced by {json.dumps(alt)}", S1.with_file(S.DOC, json.dumps(put(doc, path, alt)))))
    undec = S1.copy()
    undec.undecodable = {S.DOC}
    scenarios.append(("cache document with bytes that are not valid UTF-8", undec))
    # evaluate (parallel), then close over the states reached
    seen = {S1.key(): "the state after a complete scan"}
    results = []
    jobs = [(str(prj.root), st, fresh, want_files, markers) for _, st in scenarios]
    workers = min(int(os.environ.get("VERIF_JOBS", "16")), os.cpu_count() or 1) if len(jobs) > 64 else 1
    if workers > 1:
        with cf.ProcessPoolExecutor(workers) as ex:
            outs = list(ex.map(_scan_job, jobs, chunksize=16))
    else:
        outs = [_scan_job(j) for j in jobs]
    results = list(zip(scenarios, outs))
    frontier = []
    for (desc, st), (verdict, detail, after) in results:
        if after is not None and after.key() not in seen:
            seen[after.key()] = f"the state after a scan that started from: {desc}"
            frontier.append((seen[after.key()], after))
    rounds = 0
    while frontier and rounds < 6:
        rounds += 1
        nxt = []
        for desc, st in frontier:
            out = _scan_job((str(prj.root), st, fresh, want_files, markers))
            results.append(((desc, st), out))
            if out[2] is not None and out[2].key() not in seen:
                seen[out[2].key()] = f"the state after a scan that started from: {desc}"
                nxt.append((seen[out[2].key()], out[2]))
        frontier = nxt
    if frontier:
        ctx.info(f"R5: the closure over reached states did not finish within 6 rounds ({len(frontier)} new states left)")
    bad = {}
    unknown = 0
    for (desc, st), (verdict, detail, after) in results:
        if verdict == "ok":
            ctx.obligations += 1
            ctx.discharged += 1
            continue
        if verdict == "unknown":
            unknown += 1
            ctx.info(f"R5: not evaluable from [{desc}]: {detail}")
            continue
        ctx.obligations += 1
        kind = {"raises": "scan fails", "differs": "report differs from the fresh scan's", "incomplete": "cache left incomplete"}[verdict]
        base = desc
        pre = "the state after a scan that started from: "
        later = base.startswith(pre)
        while base.startswith(pre):
            base = base[len(pre):]
        group = base.split(":")[0] if "interrupted" in base else ("value replaced" if base.startswith("value of") else "key missing" if base.startswith("key ") else base)
        if later:
            group += "/a later scan"
        bad.setdefault((verdict, group), []).append((desc, detail))
    n_ok = sum(1 for _, o in results if o[0] == "ok")
    ctx.instances.setdefault("R5", []).extend(dict(site=sc.site(), what=f"scenario #{i}", verdict="ok") for i in range(n_ok))
    ctx.lines.append(f"OK rule=R5 site={sc.site()} construct=scan histories scenarios={len(results)} ok={n_ok} states_reached={len(seen)} closure_rounds={rounds}")
    ctx.extra["history_scenarios"] = len(results)
    ctx.extra["states_reached"] = len(seen)
    for (verdict, group), items in bad.items():
        desc, detail = items[0]
        what = {"raises": f"the next scan raises {detail}", "differs": f"the next scan completes but its report is not the fresh-scan report ({detail})",
                "incomplete": f"the next scan completes but leaves the cache incomplete: {detail}"}[verdict]
        ctx.viol("R5", f"history/{verdict}/{group}"[:120], sc.site(),
                 f"from the state [{desc}] {what}" + (f" ({len(items)} such states, e.g. also [{items[1][0]}])" if len(items) > 1 else ""))
    if unknown and not bad and unknown > len(results) // 2:
        raise AnalysisError(f"R5: {unknown} of {len(results)} scan histories were not evaluable")
    return True


def run(ctx, prj: Project):
    ctx.explanation = (
        "Mechanism of C10, decided on the statement tree: must-handle rule for the cache read/parse sites with an "
        "exception catalogue computed from the reader's constructs and resolved through the callers inside "
        "commands/scan.py; all-or-nothing reader; idempotent, unconditional, whole-document cache write. That the "
        "report after a damaged cache equals the fresh report byte for byte is a run-time equality and is not decided; "
        "what is decided is that an unreadable cache contributes nothing.")
    ctx.not_decided = ["byte equality of the post-damage report with the fresh-scan report"]
    ctx.trust("json.loads raises ValueError; subscripting untrusted JSON raises KeyError/TypeError/IndexError; text-mode "
              "read raises UnicodeDecodeError (a ValueError) or OSError", "write_text truncates", "CPython ast")
    before = len(ctx.violations)
    decided = rule_R5_history(ctx, prj, thorough=(ctx.tier == "thorough"))
    # the histories run every scan as a process of its own; what a scan leaves in the process (for a second scan of the same
    # process, as a library) is read off the effect inventory
    from .c06 import rule_no_state_left
    rule_no_state_left(ctx, prj, "R6", ["codelimit.commands.scan:scan_command"], "the scan command (cache read, walk, report, cache write)")
    # R4 looks at the reader through the scan module's own helper; the same documents (every key of every level missing) are
    # among the scenarios of R5, which observes the command itself: where the helper is not there, R5 decides
    r5_ok = bool(decided) and not any(v.rule == "R5" for v in ctx.violations)
    ctx.complement("R4", lambda: rule_R4(ctx, prj), decided=r5_ok, by="the evaluated scan histories (R5)")
    try:
        r = Reader(prj)
        if r5_ok:
            # every parse, shape and encoding fault of the cache document was put in front of the interpreted command (R5) and
            # the scan completed: a handler the must-handle reading does not see (behind a helper that calls a lambda) is there
            ctx.complement("R1", lambda: rule_R1(ctx, prj, r), True, demote=True, by="the evaluated scan histories (R5)")
        else:
            rule_R1(ctx, prj, r)
    except AnalysisError as e:
        if not decided or ctx.floors.get("R5", 0) == 0:
            raise
        # the read / parse sites are not where the structural rule looks for them (moved behind a helper or a class):
        # what a damaged document does to a scan is decided by the evaluated histories (R5)
        ctx.rule("R1", "handler discipline of the cache read: not readable off this form of the code; parse, shape and encoding "
                       "faults are decided by the evaluated histories (R5); OSError on the read is not decided", floor=0)
        ctx.info(f"R1 not applicable to this form ({e})")
        ctx.instances["R1"] = []
        r = None
    # R3 (write discipline read off scan_command): the states every write of the command can leave are explored by R5
    ctx.complement("R3", lambda: rule_R3(ctx, prj), decided=r5_ok, by="the evaluated scan histories (R5)")
    evaluated_ok = bool(decided) and not any(v.rule in ("R4", "R5") for v in ctx.violations) and ctx.floors.get("R5", 0) > 0
    # R2 is a proxy ("no handler inside the reader swallows an error"): when the wrong-shape documents (R4) and the scan
    # histories (R5) were all evaluated and no damaged cache was reused, a tolerant reader is not a violation
    mark = len(ctx.violations)
    if r is None:
        ctx.rule("R2", "all-or-nothing reader: decided by R4/R5 (the reader is not where the structural rule looks for it)", floor=0)
        return
    rule_R2(ctx, prj, r)
    if evaluated_ok and len(ctx.violations) > mark:
        for v in ctx.violations[mark:]:
            ctx.info(f"R2 (structural) would report {v.key} at {v.site}; the evaluated rules R4/R5 show that no damaged cache is reused")
            for inst in ctx.instances.get("R2", []):
                if inst.get("what") == v.key:
                    inst["verdict"] = "ok (decided by R4/R5)"
            ctx.obligations -= 0
        del ctx.violations[mark:]
