"""C10 - A damaged or partial cache never breaks or taints the next scan (mechanism)."""
from __future__ import annotations

import ast

from ..core import (AnalysisError, FuncInfo, Project, attr_chain, body_exits, const_str, enclosing, exc_is_caught, expand,
                    guards_of, handler_names, local_defs, try_handlers_covering, unparse)
from ..jsonio import Reader

SCAN = "codelimit.commands.scan"
READ_EXC = ["UnicodeDecodeError"]   # a write cut inside a multi-byte character; OSError (permissions) is outside the property


def reader_exceptions(prj: Project, r: Reader, extra_entry=()) -> dict[str, str]:
    """Exception classes the reader can raise on arbitrary text, from the constructs in its body."""
    out = {}
    fns = r.functions() + [prj.func(q) for q in extra_entry]
    for f in fns:
        for n in f.walk():
            if isinstance(n, ast.Call):
                nm = prj.resolve_callee_name(f, n)
                if nm in ("ext:json:loads", "ext:json.loads"):
                    out.setdefault("ValueError", f"json.loads at {f.site(n)}")
                if isinstance(n.func, ast.Attribute) and n.func.attr in ("items", "values", "keys", "get"):
                    out.setdefault("AttributeError", f".{n.func.attr}() on an untrusted value at {f.site(n)}")
                if any(k.arg is None for k in n.keywords):
                    out.setdefault("TypeError", f"{unparse(n.func)}(**untrusted) at {f.site(n)}")
            if isinstance(n, ast.Subscript) and isinstance(n.ctx, ast.Load):
                out.setdefault("KeyError", f"subscript at {f.site(n)}")
                out.setdefault("TypeError", f"subscript of a non-container at {f.site(n)}")
                out.setdefault("IndexError", f"subscript of a list at {f.site(n)}")
    return out


def covered(prj: Project, f: FuncInfo, node, exc: str, entry: FuncInfo, depth=0):
    """Is `exc` raised at `node` in f caught before it leaves `entry`?  -> (bool, handler|None)"""
    for t, h in try_handlers_covering(f, node):
        if exc_is_caught(exc, handler_names(h)):
            return True, (f, h)
    if f is entry or depth > 4:
        return False, None
    callers = [prj.funcs[q] for q in prj.callgraph.callers_of(f.qual) if prj.funcs[q].module is entry.module]
    if not callers:
        return False, None
    res = []
    for g in callers:
        for c in prj.callgraph.sites.get((g.qual, f.qual), []):
            res.append(covered(prj, g, c, exc, entry, depth + 1))
    if res and all(r[0] for r in res):
        return True, res[0][1]
    return False, None


def rule_R1(ctx, prj, r: Reader):
    ctx.rule("R1", "on the scan path every read of the cache file (read_text) and every parse of it (ReportReader."
                   "from_json / get_report_version) is enclosed by a handler that covers the whole set of exceptions "
                   "these operations can raise on arbitrary bytes (OSError, UnicodeDecodeError; ValueError, KeyError, "
                   "TypeError, IndexError, AttributeError), and the handler's continuation is 'no cache'", floor=6)
    entry = prj.func(f"{SCAN}:scan_command")
    mod = entry.module
    reach = [prj.funcs[q] for q in prj.callgraph.reachable([entry.qual]) if prj.funcs[q].module is mod]
    parse_exc = reader_exceptions(prj, r, ("codelimit.common.report.ReportReader:ReportReader.get_report_version",))
    ctx.extra["reader_exception_catalogue"] = parse_exc
    sites = []
    for f in reach:
        for c in f.calls():
            nm = prj.resolve_callee_name(f, c)
            if isinstance(c.func, ast.Attribute) and c.func.attr in ("read_text", "read_bytes") and "report" in unparse(c.func.value).lower():
                sites.append((f, c, "read", READ_EXC))
            elif attr_chain(c.func) == "open" and c.args and "report" in unparse(c.args[0]).lower() and \
                    not (len(c.args) > 1 and (const_str(c.args[1]) or "r")[0] in "wax"):
                sites.append((f, c, "read", READ_EXC))
            elif nm.endswith(":ReportReader.from_json") or nm.endswith(":ReportReader.get_report_version") or nm.endswith(":read_cached_report"):
                sites.append((f, c, "parse", sorted(parse_exc)))
    if not any(k == "parse" for _, _, k, _ in sites):
        raise AnalysisError("scan_command no longer reaches a cache parse (ReportReader.from_json) inside commands/scan.py")
    handlers = {}
    for f, c, kind, excs in sites:
        for e in excs:
            ok, h = covered(prj, f, c, e, entry)
            key = f"{f.local}/{kind}:{unparse(c.func)[:40]}/{e}"
            if ok:
                handlers[id(h[1])] = h
                ctx.ok("R1", f.site(c), f"{f.local}: {e} from {unparse(c)[:50]} is handled")
            else:
                why = parse_exc.get(e, "text-mode read of arbitrary bytes" if e == "UnicodeDecodeError" else "file system")
                ctx.viol("R1", f"{f.local}/{kind}/{e}", f.site(c),
                         f"{e} raised by {unparse(c)[:60]} ({why}) is not caught on the way back to scan_command: a cache file "
                         f"that is empty, truncated or of the wrong shape makes this and every later scan crash")
    # continuation of each covering handler: "no cache"
    for f, h in handlers.values():
        ex = body_exits(h.body)
        rets = [n for n in h.body if isinstance(n, ast.Return)]
        none_ret = any(r.value is None or (isinstance(r.value, ast.Constant) and r.value.value is None) for r in rets)
        assigns_none = any(isinstance(n, ast.Assign) and isinstance(n.value, ast.Constant) and n.value.value is None for n in h.body)
        only_pass = all(isinstance(n, ast.Pass) for n in h.body)
        if ex == "raise":
            ctx.viol("R1", f"{f.local}/handler-reraises", f.site(h), "the handler around the cache read re-raises: the damaged cache still aborts the scan")
        elif none_ret or assigns_none:
            ctx.ok("R1", f.site(h), f"{f.local}: handler yields 'no cache' (None)")
        elif only_pass:
            # falls through: the names bound in the try body must not be used afterwards
            tr = getattr(h, "_suppress_with", None) or [t for t in f.walk() if isinstance(t, ast.Try) and h in t.handlers][0]
            bound = {x.id for s in tr.body for x in ast.walk(s) if isinstance(x, ast.Name) and isinstance(x.ctx, ast.Store)}
            after = False
            used = set()
            for st in ast.walk(f.node):
                pass
            blk = f.parents[tr]
            for fld in ("body", "orelse"):
                lst = getattr(blk, fld, None)
                if isinstance(lst, list) and tr in lst:
                    for st in lst[lst.index(tr) + 1:]:
                        used |= {x.id for x in ast.walk(st) if isinstance(x, ast.Name) and isinstance(x.ctx, ast.Load)}
            pre = {x for x in bound if any(s.lineno < tr.lineno for _, s in local_defs(f, x))}
            if (bound - pre) & used:
                ctx.viol("R1", f"{f.local}/handler-falls-through", f.site(h),
                         f"after the handler the code uses {sorted((bound - pre) & used)}, bound only inside the try: unbound when the cache is damaged")
            else:
                ctx.ok("R1", f.site(h), f"{f.local}: handler falls through to the 'no cache' path")
        else:
            raise AnalysisError(f"{f.site(h)}: continuation of the cache-read handler not understood")


def rule_R2(ctx, prj, r: Reader):
    ctx.rule("R2", "a rejected cache cannot taint: the reader is all-or-nothing - no handler inside ReportReader.from_json "
                   "(or its helpers) swallows an error and continues with a partially built report", floor=1)
    n = 0
    for f in r.functions():
        for t in [x for x in f.walk() if isinstance(x, ast.Try)]:
            for h in t.handlers:
                n += 1
                if body_exits(h.body) == "raise":
                    ctx.ok("R2", f.site(h), f"{f.name}: handler re-raises")
                else:
                    ctx.viol("R2", f"{f.name}/swallowing-handler", f.site(h),
                             f"ReportReader.{f.name} catches {', '.join(handler_names(h))} and carries on: records that failed to parse are "
                             f"dropped or left half-registered in the codebase while the report is still returned, so a damaged cache "
                             f"is reused instead of being rejected as a whole")
    if n == 0:
        ctx.ok("R2", r.functions()[0].site(), "ReportReader.from_json and helpers contain no exception handler: any error rejects the whole cache")


def rule_R3(ctx, prj):
    ctx.rule("R3", "the cache write cannot block a later scan: the report is written unconditionally, as the whole "
                   "document of one to_json() call, in truncating mode (no exclusive-create 'x', no append 'a'); "
                   "directory creation is guarded by a non-existence test or exist_ok", floor=2)
    entry = prj.func(f"{SCAN}:scan_command")
    mod = entry.module
    reach = [prj.funcs[q] for q in prj.callgraph.reachable([entry.qual]) if prj.funcs[q].module is mod]
    writes = []
    for f in reach:
        for c in f.calls():
            if isinstance(c.func, ast.Attribute) and c.func.attr in ("write_text", "write_bytes") and c.args:
                writes.append((f, c, c.args[0], c.func.value))
            if isinstance(c.func, ast.Attribute) and c.func.attr == "write" and c.args and isinstance(c.func.value, ast.Name):
                writes.append((f, c, c.args[0], c.func.value))
            # open modes
            mode = None
            if attr_chain(c.func) == "open" and len(c.args) > 1:
                mode = const_str(c.args[1])
            if isinstance(c.func, ast.Attribute) and c.func.attr == "open" and c.args:
                mode = const_str(c.args[0])
            for k in c.keywords:
                if k.arg == "mode":
                    mode = const_str(k.value)
            if mode is not None and (attr_chain(c.func) == "open" or (isinstance(c.func, ast.Attribute) and c.func.attr == "open")):
                if "x" in mode:
                    ctx.viol("R3", f"{f.local}/exclusive-create", f.site(c),
                             f"`{unparse(c)[:70]}` creates its file exclusively: a file left behind by a scan that was interrupted during "
                             f"the cache write makes every later scan fail with FileExistsError")
                elif "a" in mode:
                    ctx.viol("R3", f"{f.local}/append-mode", f.site(c), f"`{unparse(c)[:70]}` appends to the cache instead of replacing it")
                else:
                    ctx.ok("R3", f.site(c), f"{f.local}: {unparse(c)[:50]} opens in mode {mode!r}")
            if isinstance(c.func, ast.Attribute) and c.func.attr in ("mkdir", "makedirs") or attr_chain(c.func) in ("os.mkdir", "os.makedirs"):
                exist_ok = any(k.arg == "exist_ok" and isinstance(k.value, ast.Constant) and k.value.value is True for k in c.keywords)
                gs = guards_of(f, c)
                guarded = any("exists()" in unparse(g.test) or "is_dir()" in unparse(g.test) for g in gs)
                if exist_ok or guarded:
                    ctx.ok("R3", f.site(c), f"{f.local}: directory creation {'exist_ok' if exist_ok else 'guarded by a non-existence test'}")
                else:
                    ctx.viol("R3", f"{f.local}/mkdir-unguarded", f.site(c), "the cache directory is created unconditionally: an existing directory (e.g. after an interrupted scan) makes the scan fail")
            if isinstance(c.func, ast.Attribute) and c.func.attr == "touch" and any(k.arg == "exist_ok" and isinstance(k.value, ast.Constant) and k.value.value is False for k in c.keywords):
                ctx.viol("R3", f"{f.local}/touch-exclusive", f.site(c), "touch(exist_ok=False) fails on a leftover file")
            if attr_chain(c.func) in ("os.link", "os.symlink", "os.mkfifo"):
                ctx.viol("R3", f"{f.local}/link", f.site(c), f"{attr_chain(c.func)} fails when its target is left over from an interrupted scan")
    # the report document write
    doc_writes = [(f, c, a, recv) for f, c, a, recv in writes if "to_json" in unparse(expand(f, a))]
    if not doc_writes:
        raise AnalysisError("scan_command: no write of ReportWriter(...).to_json() found")
    for f, c, a, recv in doc_writes:
        conds = [g for g in guards_of(f, c)]
        txt = unparse(expand(f, a))
        single = txt.count("to_json(") == 1 and "+" not in txt
        if conds:
            ctx.viol("R3", f"{f.local}/conditional-write", f.site(c),
                     f"the report is written only when {', '.join(repr(g) for g in conds)[:120]}: a damaged cache may never be replaced")
        elif not single:
            ctx.viol("R3", f"{f.local}/piecewise-write", f.site(c), f"the cache is not written as the document of a single to_json() call: {txt[:80]}")
        else:
            ctx.ok("R3", f.site(c), f"{f.local}: report document written unconditionally from one to_json() call")


def rule_R4(ctx, prj):
    """evaluated: a cache document with any one key missing is rejected as a whole, or offers exactly the entries of the intact one"""
    import json
    from ..absint import PyRaise, Sym, Unknown
    from .. import cache_eval as CE
    ctx.rule("R4", "wrong shape, evaluated: for a cache document written by the repo's writer with any single key removed (every "
                   "key of every level: report, codebase, tree folders, file entries, measurements, locations), "
                   "_read_cached_report either yields no cache, or a report of another version (never reused), or a report that "
                   "offers only file entries of the intact document, unchanged - it never offers an entry with fewer or other "
                   "functions", floor=20)
    rd = prj.func("codelimit.commands.scan:_read_cached_report")
    try:
        cur = CE.current_version(prj)
        doc = json.loads(CE.cache_documents(prj)["running version"])
        intact = CE.read_cached(prj, json.dumps(doc), want_object=True)
        if not isinstance(intact, Sym):
            raise Unknown(f"the intact document is read as {intact!r}")
        ref = CE.entries_of(prj, intact)
        if not ref or not any(e[3] for e in ref.values()):
            raise Unknown("the intact document offers no entries with functions")
        paths = sorted(set(CE.key_paths(doc)), key=repr)
        results = []
        for path in paths:
            r = CE.read_cached(prj, json.dumps(CE.without(doc, path)), want_object=True)
            if r is None or isinstance(r, str):
                results.append((path, "rejected" if r is None else r, None))
                continue
            if not isinstance(r, Sym):
                raise Unknown(f"_read_cached_report returns {r!r}")
            if r.fields.get("version") != cur:
                results.append((path, "other version", None))
                continue
            got = CE.entries_of(prj, r)
            # an entry that is absent is analysed afresh; an entry that is offered must be the one that was written
            results.append((path, "same entries" if all(ref.get(k) == v for k, v in got.items()) else "differs", got))
    except (Unknown, PyRaise) as e:
        ctx.info(f"R4: cache reader not evaluable ({type(e).__name__}: {e}); the structural rules R1/R2 decide")
        ctx.rule("R4", "cache reader not evaluable by the interpreter: structural rules R1/R2 decide", floor=0)
        return
    for path, verdict, got in results:
        ptxt = "/".join(str(x) for x in path).encode("unicode_escape").decode()
        if verdict == "differs":
            k = next(k for k in got if got[k] != ref.get(k))
            ctx.viol("R4", f"missing-key/{'/'.join('*' if isinstance(x, int) or i == 2 and path[1] == 'files' or i == 2 and path[1] == 'tree' else str(x) for i, x in enumerate(path))}",
                     rd.site(), f"a cache document without the key {ptxt} is accepted as a cache of the running version, but its entry "
                                f"{k!r} reads {str(got.get(k))[:160]} instead of {str(ref.get(k))[:160]}: the next scan reuses it for an "
                                f"unchanged file and reports other functions than a fresh scan, and writes them back to the cache")
        elif verdict.startswith("raises"):
            ctx.viol("R4", f"missing-key-raises/{ptxt}", rd.site(), f"a cache document without the key {ptxt} makes _read_cached_report {verdict}: the scan fails")
        else:
            ctx.ok("R4", rd.site(), f"cache without key {ptxt}: {verdict}")


def run(ctx, prj: Project):
    ctx.explanation = (
        "Mechanism of C10, decided on the statement tree: must-handle rule for the cache read/parse sites with an "
        "exception catalogue computed from the reader's constructs and resolved through the callers inside "
        "commands/scan.py; all-or-nothing reader; idempotent, unconditional, whole-document cache write. That the "
        "report after a damaged cache equals the fresh report byte for byte is a run-time equality and is not decided; "
        "what is decided is that an unreadable cache contributes nothing.")
    ctx.not_decided = ["byte equality of the post-damage report with the fresh-scan report"]
    ctx.trust("json.loads raises ValueError; subscripting untrusted JSON raises KeyError/TypeError/IndexError; text-mode "
              "read raises UnicodeDecodeError (a ValueError) or OSError", "write_text truncates", "CPython ast")
    r = Reader(prj)
    rule_R1(ctx, prj, r)
    rule_R2(ctx, prj, r)
    rule_R3(ctx, prj)
    rule_R4(ctx, prj)
