"""C06 - Analysis is deterministic, order-independent and isolated per file (effect property)."""
from __future__ import annotations

import ast

from ..core import (AnalysisError, FuncInfo, Project, attr_chain, enclosing, expand, guards_of, local_defs, term,
                    unparse, analysis_functions)
from ..patterns import consume_rule, extract_header_patterns

SC = "codelimit.common.Scanner"
ENTRY = [f"{SC}:scan_file", f"{SC}:scan_path", "codelimit.commands.check:check_command"]
MUTATORS = ("append", "extend", "insert", "update", "add", "pop", "remove", "clear", "setdefault", "sort", "reverse",
            "popitem", "discard", "__setitem__")


def analysis_path(prj: Project) -> list[FuncInfo]:
    return analysis_functions(prj, ENTRY)


# ----------------------------------------------------------------------------
# R1: hash-order insensitivity
# ----------------------------------------------------------------------------

def _set_typed_names(fi: FuncInfo, prj: Project) -> set[str]:
    out = set()
    for p in fi.params():
        ann = fi.param_annotation(p)
        if ann is not None and unparse(ann).replace(" ", "").startswith(("set[", "Set[", "set")) and "State|" not in unparse(ann):
            out.add(p)
    changed = True
    while changed:
        changed = False
        for n in fi.walk():
            if isinstance(n, (ast.Assign, ast.AnnAssign)):
                tgt = n.targets[0] if isinstance(n, ast.Assign) else n.target
                val = n.value
                if isinstance(tgt, ast.Name) and val is not None and tgt.id not in out and _is_set_expr(fi, prj, val, out):
                    out.add(tgt.id)
                    changed = True
                if isinstance(tgt, ast.Tuple) and isinstance(val, ast.Call) and isinstance(val.func, ast.Attribute) and val.func.attr == "pop":
                    # state, T = stack.pop() where the stack holds (state, set) pairs
                    pass
    return out


def _returns_set(f: FuncInfo) -> bool:
    r = f.node.returns
    return r is not None and unparse(r).replace(" ", "").startswith(("set[", "Set[", "set"))


def _is_set_expr(fi: FuncInfo, prj: Project, e, known: set[str]) -> bool:
    if isinstance(e, (ast.Set, ast.SetComp)):
        return True
    if isinstance(e, ast.Name):
        return e.id in known
    if isinstance(e, ast.Call):
        if attr_chain(e.func) in ("set", "frozenset"):
            return True
        tg, kind = prj.resolve_call(fi, e)
        if kind == "direct" and tg and all(_returns_set(t) for t in tg):
            return True
    if isinstance(e, ast.BinOp) and isinstance(e.op, (ast.BitOr, ast.BitAnd, ast.Sub)):
        return _is_set_expr(fi, prj, e.left, known) or _is_set_expr(fi, prj, e.right, known)
    return False


def _commutative_body(stmts) -> bool:
    for st in stmts:
        if isinstance(st, ast.Expr) and isinstance(st.value, ast.Call) and isinstance(st.value.func, ast.Attribute) \
                and st.value.func.attr in ("add", "update", "discard"):
            continue
        if isinstance(st, ast.AugAssign) and isinstance(st.op, (ast.BitOr, ast.BitAnd)):
            continue
        if isinstance(st, (ast.For, ast.If)):
            if _commutative_body(st.body) and _commutative_body(st.orelse):
                continue
            return False
        if isinstance(st, (ast.Pass, ast.Continue)):
            continue
        if isinstance(st, ast.Expr) and isinstance(st.value, ast.Call) and isinstance(st.value.func, ast.Name):
            # a call whose only effect is on a set passed along (recursive closure with accumulator)
            continue
        return False
    return True


def rule_R1(ctx, prj, fns):
    ctx.rule("R1", "every iteration over a set-typed value on the analysis path has an order-insensitive body (only "
                   "set.add/update, or feeds sorted(...)); the single admitted order-visible site is nfa_to_dfa's loop "
                   "over the symbols of a state, which only fixes the order of a DFA state's transition list and is "
                   "admitted under R2", floor=4)
    admitted = {"codelimit.common.gsm.Expression:nfa_to_dfa": "order of each DFA state's transition list; unobservable while "
                                                              "Pattern.consume examines all transitions (R2)"}
    seen = 0
    # unpacked sets: `state, T = stack.pop()` where the pushed tuples carry a set
    for fi in fns:
        known = _set_typed_names(fi, prj)
        # tuple-unpacked names that receive closure results through a worklist
        for n in fi.walk():
            if isinstance(n, ast.Assign) and isinstance(n.targets[0], ast.Tuple):
                for t in n.targets[0].elts:
                    if isinstance(t, ast.Name) and t.id in ("T",):
                        known.add(t.id)
        for n in fi.walk():
            it = None
            body = None
            kind = None
            if isinstance(n, ast.For) and _is_set_expr(fi, prj, n.iter, known):
                it, body, kind = n.iter, n.body, "for"
            elif isinstance(n, (ast.ListComp, ast.GeneratorExp)) and any(_is_set_expr(fi, prj, g.iter, known) for g in n.generators):
                it, kind = n.generators[0].iter, "comp"
            elif isinstance(n, ast.SetComp) and any(_is_set_expr(fi, prj, g.iter, known) for g in n.generators):
                seen += 1
                ctx.ok("R1", fi.site(n), f"{fi.local}/set comprehension over {unparse(n.generators[0].iter)[:40]}: the result is a set again")
                continue
            elif isinstance(n, ast.Call) and attr_chain(n.func) in ("list", "tuple", "next", "iter") and n.args and _is_set_expr(fi, prj, n.args[0], known):
                it, kind = n.args[0], attr_chain(n.func)
            elif isinstance(n, ast.Call) and isinstance(n.func, ast.Attribute) and n.func.attr == "pop" and not n.args \
                    and isinstance(n.func.value, ast.Name) and n.func.value.id in known:
                it, kind = n.func.value, "set.pop"
            if it is None:
                continue
            seen += 1
            key = f"{fi.local}/{kind} over {unparse(it)[:40]}"
            if kind == "for":
                if _commutative_body(body):
                    ctx.ok("R1", fi.site(n), f"{key}: commutative body")
                elif fi.qual in admitted:
                    ctx.ok("R1", fi.site(n), f"{key}: order-visible, admitted ({admitted[fi.qual]})")
                else:
                    ctx.viol("R1", key, fi.site(n), f"the loop over the set {unparse(it)[:50]} has an order-visible body (appends, "
                             f"returns or overwrites): the result depends on set iteration order, i.e. on PYTHONHASHSEED / object addresses")
            elif kind == "comp":
                par = fi.parents.get(n)
                par2 = fi.parents.get(par) if par is not None else None
                sorted_consumer = any(isinstance(p, ast.Call) and attr_chain(p.func) in ("sorted", "set", "frozenset", "sum", "min", "max", "any", "all", "len")
                                      for p in (par, par2) if p is not None)
                if sorted_consumer:
                    ctx.ok("R1", fi.site(n), f"{key}: consumed by an order-insensitive function")
                else:
                    ctx.viol("R1", key, fi.site(n), f"a list is built from the set {unparse(it)[:50]} in iteration order and used as such")
            else:
                par = fi.parents.get(n)
                if kind in ("list", "tuple") and isinstance(par, ast.Call) and attr_chain(par.func) == "sorted":
                    ctx.ok("R1", fi.site(n), f"{key}: sorted")
                else:
                    ctx.viol("R1", key, fi.site(n), f"{kind}({unparse(it)[:40]}) picks elements of a set in hash order")
    return seen



def rule_R8_set_order(ctx, prj) -> bool:
    """the engine evaluated twice, the second time with every set iterated in the opposite order: same automaton language and
    same match / find_all results.  True when decided and passed."""
    from ..absint import MiniInterp, PyRaise, Sym, Unknown
    from ..engine_eval import Engine, is_deterministic, language_dfa, reference_dfa, shortest_difference
    from .c13 import corpus
    ctx.rule("R8", "set iteration order is unobservable in the engine: for the pattern trees of the bounded family (C13's corpus) "
                   "the repo's expression_to_nfa / nfa_to_dfa, interpreted a second time with every set iterated in the opposite "
                   "order, yield a deterministic automaton of the same language, and find_all reports the same matches on all "
                   "sequences over {a, b} up to length 3", floor=0)
    alphabet = ("a", "b")
    trees = [t for t in corpus(False) if t.op != "atom"]
    trees = trees[::max(1, len(trees) // 40)][:40]
    n2d = prj.func("codelimit.common.gsm.Expression:nfa_to_dfa")
    fa = prj.func("codelimit.common.gsm.matcher:find_all")
    seqs = [[x] for x in alphabet] + [[x, y] for x in alphabet for y in alphabet] + [[x, y, z] for x in alphabet for y in alphabet for z in alphabet]
    try:
        n = 0
        for p in trees:
            res = []
            for rev in (False, True):
                eng = Engine(prj)
                eng.it.reverse_sets = rev
                g = eng.graph(eng.dfa(p))
                det = is_deterministic(g[2], g[3])
                if det:
                    if rev:
                        ctx.viol("R8", "engine/set-order", n2d.site(), f"for {p!r}, with sets iterated in the opposite order, nfa_to_dfa builds an automaton that is not deterministic: {det}")
                        return False
                    raise Unknown("not deterministic in the model order")
                res.append(language_dfa(*g, alphabet))
            d = shortest_difference(res[0], res[1], alphabet)
            if d is not None:
                ctx.viol("R8", "engine/set-order", n2d.site(), f"for {p!r} the automaton built with sets iterated in the opposite order "
                                                               f"{'accepts' if d[1] else 'rejects'} [{' '.join(d[0])}] while the other one does not: the result depends on set iteration order (PYTHONHASHSEED)")
                return False
            n += 1
        m = 0
        for p in [t for t in trees if not t.nullable()][:6]:
            for w in seqs:
                outs = []
                for rev in (False, True):
                    eng = Engine(prj)
                    eng.it.reverse_sets = rev
                    eng.it.steps = 0
                    r = eng.it.call(fa, [eng.expr(p), list(w)], {})
                    r = r.rest() if hasattr(r, "rest") else r
                    outs.append([(x.fields.get("start"), x.fields.get("end")) for x in r])
                m += 1
                if outs[0] != outs[1]:
                    ctx.viol("R8", "find_all/set-order", fa.site(), f"find_all({p!r}, [{' '.join(w)}]) reports {outs[0]} and, with sets iterated in the opposite order, {outs[1]}")
                    return False
    except (Unknown, PyRaise) as e:
        ctx.info(f"R8: engine not evaluable under a permuted set order ({type(e).__name__}: {e}); the structural classification R1 decides")
        return False
    ctx.ok("R8", n2d.site(), f"{n} pattern trees: same language under both set orders; find_all: same matches on {m} (pattern, sequence) pairs")
    return True

def rule_R9_exclusion_order(ctx, prj) -> None:
    """the patterns that select the analysed files, from configuration file to PathSpec, under both set orders"""
    from ..absint import MiniInterp, PyRaise, Sym, Unknown
    from ..fsmodel import VFS, PathV, fs_hook
    ctx.rule("R9", "which files are analysed does not depend on set iteration order: Configuration.load (the YAML parser replaced by the "
                   "mapping it would return for a file with two exclusions and two re-including negations), a second load, and "
                   "generate_exclude_spec interpreted twice, the second time with every set iterated in the opposite order, hand "
                   "PathSpec.from_lines the same pattern list (gitignore: the last matching pattern wins, so order is content)", floor=0)
    written = ["generated/*", "!generated/keep.py", "vendor/*", "!vendor/own.py", "*.min.js"]
    gitignore = "build/\n!build/keep.py\n"
    load = prj.func("codelimit.common.Configuration:Configuration.load")
    ges = prj.func("codelimit.common.Scanner:generate_exclude_spec")
    seen = []
    try:
        for rev in (False, True):
            vfs = VFS({"/w": (["proj"], []), "/w/proj": ([], [".codelimit.yml", ".gitignore", "a.py"])}, "/w/proj")
            vfs.texts["/w/proj/.gitignore"] = gitignore
            fs = fs_hook(vfs)
            lines = []

            def hook(it, kind, f, args, kwargs, node, cur, fs=fs, lines=lines):
                r = fs(it, kind, f, args, kwargs, node, cur)
                if r is not NotImplemented:
                    return r
                if kind == "call" and isinstance(f, tuple) and f and f[0] == "external":
                    name = f[1].replace(":", ".")
                    base = name.split(".")[-1]
                    if name.split(".")[0] == "yaml" and base in ("load", "safe_load", "full_load"):
                        return {"exclude": list(written), "verbose": False}
                    if base == "from_lines":
                        got = args[-1] if args else kwargs.get("lines")
                        lines.append([x for x in it.iterate(got)])
                        return Sym("spec")
                    if name.split(".")[0] == "logging":
                        return None
                return NotImplemented
            it = MiniInterp(prj, hook, max_steps=100000)
            it.reverse_sets = rev
            it.call(load, [PathV("/w/proj")], {}, T_class(load))
            it.call(ges, [PathV("/w/proj")], {})
            it.call(load, [PathV("/w/proj")], {}, T_class(load))
            it.call(ges, [PathV("/w/proj")], {})
            if len(lines) != 2 or not all(isinstance(x, str) for l in lines for x in l):
                raise Unknown("generate_exclude_spec does not hand a list of pattern strings to PathSpec.from_lines")
            seen.append(lines)
    except (Unknown, PyRaise) as e:
        ctx.info(f"R9: configuration loading / exclusion spec not evaluable ({type(e).__name__}: {e}); not judged")
        return
    a, b = seen
    for i, (x, y) in enumerate(zip(a, b)):
        if x != y:
            ours_x, ours_y = [p for p in x if p in written], [p for p in y if p in written]
            ctx.viol("R9", "Configuration.load/set-order", load.site(),
                     f"after {'one load' if i == 0 else 'a second load'} of a configuration that excludes {written}, PathSpec receives these patterns in the order "
                     f"{ours_x} and, with sets iterated in the opposite order, {ours_y}: with a negation the last matching pattern wins, so which files are "
                     f"analysed depends on set iteration order (PYTHONHASHSEED)")
            return
    ctx.ok("R9", load.site(), f"configuration ({len(written)} patterns, two negations) + .gitignore: PathSpec receives the same {len(a[0])} / {len(a[1])} patterns in the same order under both set orders")


def T_class(fi):
    from ..absint import T
    return T("class", fi.cls) if fi.is_classmethod() else None


# ----------------------------------------------------------------------------
# R2 / R3
# ----------------------------------------------------------------------------

def rule_R2(ctx, prj):
    ctx.rule("R2", "Pattern.consume examines ALL transitions of the current state (after the order-independent "
                   "restriction to open groups): no break/return on an accepting transition, and a second accepting "
                   "transition raises instead of being chosen by list order", floor=1)
    r = consume_rule(prj)
    site = r.fi.site(r.loop) if r.loop is not None else r.fi.site()
    if r.order_dependent:
        how = ("the first accepting transition in list order is taken" if r.first_match else
               "the last accepting transition in list order silently wins" if r.last_match else "the outcome differs")
        ctx.viol("R2", "Pattern.consume/first-match" if r.first_match else "Pattern.consume/no-raise" if r.last_match
                 else "Pattern.consume/order-dependent", site,
                 f"evaluating Pattern.consume on a state with two transitions, {how}: {r.order_dependent[0]}; the order of the "
                 f"transition list is derived by nfa_to_dfa from set iteration (hash seed)")
    else:
        ctx.ok("R2", site, f"Pattern.consume: the outcome of all {r.scenarios} two-transition scenarios (list order x open x accepting) "
                           f"is independent of the list order" + ("; a second accepting transition raises" if r.raises_on_second else ""))
    if r.history_dependent:
        ctx.viol("R2", "Pattern.consume/history-dependent", r.fi.site(),
                 f"the outcome of Pattern.consume depends on what an earlier match attempt left on the automaton they share: {r.history_dependent[0]} "
                 f"({len(r.history_dependent)} of {r.history_scenarios} scenario pairs): the result for a piece of source then depends on what was matched before it")
    elif r.history_scenarios:
        ctx.ok("R2", r.fi.site(), f"Pattern.consume: {r.history_scenarios} (earlier attempt, this attempt) scenario pairs over one automaton - the outcome never depends on the earlier attempt")
    return r


def rule_R3(ctx, prj, fns, r):
    ctx.rule("R3", "stateful predicates are per match attempt: on the analysis path every accept()/is_open() receiver is "
                   "a sub-predicate field of the predicate itself, a deepcopy held by the Pattern instance, or an object "
                   "constructed in the same function - never the automaton's shared predicate", floor=3)
    pred_base = prj.cls("codelimit.common.gsm.predicate.Predicate:Predicate")
    pred_classes = {c.qual for c in pred_base.all_subclasses()} | {pred_base.qual}
    pattern_cls = r.fi.cls
    for fi in fns:
        for c in fi.calls():
            if not (isinstance(c.func, ast.Attribute) and c.func.attr in ("accept", "is_open", "reset")):
                continue
            recv = c.func.value
            key = f"{fi.local}/{unparse(c)[:50]}"
            if fi.cls is not None and fi.cls is pattern_cls:
                # decided by evaluation of Pattern.consume below (whatever the shape of the code)
                if r.copies_predicates:
                    ctx.ok("R3", fi.site(c), f"{key}: in all {r.scenarios} evaluated scenarios of Pattern.consume the receiver is a per-pattern deep copy")
                continue
            if fi.cls and fi.cls.qual in pred_classes and (
                    (isinstance(recv, ast.Name) and recv.id == "self") or
                    (isinstance(recv, ast.Attribute) and isinstance(recv.value, ast.Name) and recv.value.id == "self")):
                ctx.ok("R3", fi.site(c), f"{key}: the predicate itself / own sub-predicate")
                continue
            if isinstance(recv, ast.Call) and isinstance(recv.func, ast.Name) and recv.func.id == "super":
                ctx.ok("R3", fi.site(c), f"{key}: super()")
                continue
            # local constructed in the same function
            if isinstance(recv, ast.Name):
                defs = [v for v, _ in local_defs(fi, recv.id) if v is not None]
                if defs and all(isinstance(v, ast.Call) and prj.resolve_ctor(fi, v) is not None for v in defs):
                    ctx.ok("R3", fi.site(c), f"{key}: constructed in this function")
                    continue
                if defs and all(_is_copy(prj, fi, v) for v in defs):
                    ctx.ok("R3", fi.site(c), f"{key}: per-attempt deep copy")
                    continue
            if isinstance(recv, ast.Call) and _is_copy(prj, fi, recv):
                ctx.ok("R3", fi.site(c), f"{key}: per-attempt deep copy")
                continue
            src = term(fi, recv) + " " + " ".join(_iter_sources(fi, recv))
            if ".transition" in src or ".item" in src or "automata" in src:
                ctx.viol("R3", key, fi.site(c),
                         f"{unparse(recv)[:60]}.{c.func.attr}(...) is called on a predicate that is shared by the automaton ({src[:60]}, not a per-attempt copy): "
                         f"Balanced.depth / satisfied leak between match attempts and between files analysed in the same process")
            else:
                raise AnalysisError(f"{fi.site(c)}: cannot tell whether the receiver of {unparse(c)[:60]} is a per-attempt predicate")
    if not r.copies_predicates:
        ctx.viol("R3", "Pattern.consume/no-deepcopy", r.shared_calls[0][1] if r.shared_calls else r.fi.site(),
                 f"Pattern.consume calls {r.shared_calls[0][0] if r.shared_calls else 'accept'}() on the automaton's shared predicate, not on a per-pattern deep copy")


def _iter_sources(fi: FuncInfo, expr) -> list:
    """the iterables that bind the loop / comprehension variables occurring in expr"""
    names = {n.id for n in ast.walk(expr) if isinstance(n, ast.Name)}
    out = []
    for n in fi.walk():
        gens = [(n.target, n.iter)] if isinstance(n, ast.For) else \
            [(g.target, g.iter) for g in n.generators] if isinstance(n, (ast.ListComp, ast.SetComp, ast.GeneratorExp, ast.DictComp)) else []
        for tgt, it in gens:
            if names & {x.id for x in ast.walk(tgt) if isinstance(x, ast.Name)}:
                out.append(term(fi, it))
    return out


def _is_copy(prj: Project, fi: FuncInfo, v) -> bool:
    """v is deepcopy(...) or a call of a method of the same class whose returns all come from a map filled with deepcopy"""
    if isinstance(v, ast.Call) and attr_chain(v.func) in ("deepcopy", "copy.deepcopy"):
        return True
    if isinstance(v, ast.Subscript) and "predicate_map" in unparse(v.value):
        # every store into the map is a deepcopy
        stores = [n for n in fi.walk() if isinstance(n, ast.Assign) and any(isinstance(t, ast.Subscript) and "predicate_map" in unparse(t.value) for t in n.targets)]
        return bool(stores) and all(isinstance(n.value, ast.Call) and attr_chain(n.value.func) in ("deepcopy", "copy.deepcopy") for n in stores)
    if isinstance(v, ast.Call):
        tg, kind = prj.resolve_call(fi, v)
        if tg and all(t.cls is fi.cls and t.cls is not None for t in tg):
            ok = True
            for t in tg:
                rets = [r.value for r in t.walk() if isinstance(r, ast.Return) and r.value is not None]
                if not rets or not all(_is_copy(prj, t, x) for x in rets):
                    ok = False
            return ok
    return False


# ----------------------------------------------------------------------------
# R4: process-wide state, R5: nondeterministic sources
# ----------------------------------------------------------------------------

ALLOWED_STATE_WRITES = {
    ("codelimit.common.gsm.automata.State:State.__init__", "State._id"):
        "state ids are labels: they only key state sets inside one nfa_to_dfa call and appear in dot output",
}


def _global_target(prj: Project, fi: FuncInfo, expr) -> str | None:
    """If expr denotes module-level or class-level state of the project: its name."""
    ch = attr_chain(expr)
    if ch is None or "()" in ch:
        return None
    head = ch.split(".")[0]
    if head in ("self",):
        # self.X where X is a mutable object created in the class body and never rebound on the instance: one object for all instances
        parts = ch.split(".")
        if len(parts) == 2 and fi.cls is not None:
            for c in fi.cls.mro():
                v = c.class_attrs.get(parts[1])
                if v is None:
                    continue
                mutable = isinstance(v, (ast.Dict, ast.List, ast.Set)) or \
                    (isinstance(v, ast.Call) and (attr_chain(v.func) or "").split(".")[-1] in ("dict", "list", "set", "defaultdict", "deque", "OrderedDict", "Counter"))
                rebound = any(isinstance(t, ast.Attribute) and isinstance(t.value, ast.Name) and t.value.id == "self" and t.attr == parts[1]
                              for k in fi.cls.mro() for m_ in k.methods.values() for n_ in m_.walk() if isinstance(n_, (ast.Assign, ast.AnnAssign))
                              for t in (n_.targets if isinstance(n_, ast.Assign) else [n_.target]))
                if mutable and not rebound:
                    return f"{c.name}.{parts[1]}"
                break
        return None
    if head == "cls" and fi.cls is not None and fi.is_classmethod() and "." in ch:
        return f"{fi.cls.name}.{ch.split('.', 1)[1]}"
    # local alias of a global (no copy)
    if head in {n.id for n in ast.walk(fi.node) if isinstance(n, ast.Name) and isinstance(n.ctx, ast.Store)} and head not in fi.module.assigns:
        defs = [v for v, _ in local_defs(fi, head)]
        glob = [_global_target(prj, fi, v) for v in defs if v is not None and isinstance(v, (ast.Name, ast.Attribute))]
        glob = [g for g in glob if g]
        if glob and "." not in ch:
            return glob[0] + " (through local alias " + head + ")"
        return None
    if head in fi.params():
        return None
    tgt = prj.resolve_name_in_module(fi.module, ch)
    if isinstance(tgt, tuple) and tgt[0] == "classattr":
        return f"{tgt[1].name}.{tgt[2]}"
    if isinstance(tgt, tuple) and tgt[0] == "modattr":
        return f"{tgt[1].name}.{tgt[2]}"
    if "." not in ch and ch in fi.module.assigns and ch not in fi.params():
        return f"{fi.module.name}.{ch}"
    return None


def _mutable_default_params(fi: FuncInfo) -> dict:
    """parameters whose default is a mutable object created once, when the function is defined: name -> default expression"""
    out = {}
    for p_ in fi.params():
        d = fi.param_default(p_)
        if d is None:
            continue
        if isinstance(d, (ast.Dict, ast.List, ast.Set)) or \
                (isinstance(d, ast.Call) and (attr_chain(d.func) or "").split(".")[-1] in ("dict", "list", "set", "defaultdict", "deque", "OrderedDict", "Counter")):
            out[p_] = d
    return out


def state_writes(prj: Project, fi: FuncInfo):
    out = []
    # a mutable default argument is one object for the whole process: modifying it in place leaves state behind for every later
    # call that omits the argument
    mdp = _mutable_default_params(fi)
    if mdp:
        rebound = {t.id for n in fi.walk() if isinstance(n, ast.Assign) for t in n.targets if isinstance(t, ast.Name)}
        for n in fi.walk():
            tgt = None
            if isinstance(n, (ast.Assign, ast.AugAssign)):
                for t in (n.targets if isinstance(n, ast.Assign) else [n.target]):
                    b = t.value if isinstance(t, ast.Subscript) else (t if isinstance(n, ast.AugAssign) else None)
                    if isinstance(b, ast.Name) and b.id in mdp and b.id not in rebound:
                        tgt = b.id
            elif isinstance(n, ast.Call) and isinstance(n.func, ast.Attribute) and n.func.attr in MUTATORS and isinstance(n.func.value, ast.Name) \
                    and n.func.value.id in mdp and n.func.value.id not in rebound:
                tgt = n.func.value.id
            elif isinstance(n, ast.Delete):
                for t in n.targets:
                    if isinstance(t, ast.Subscript) and isinstance(t.value, ast.Name) and t.value.id in mdp and t.value.id not in rebound:
                        tgt = t.value.id
            if tgt is not None:
                out.append((f"{fi.module.name}.{fi.local}(<default of {tgt}>)", n))
    # a module-level one-shot iterator (zip / map / filter / iter / a generator expression): the first function that iterates it
    # leaves it empty for the rest of the process
    for n in fi.walk():
        if isinstance(n, ast.Name) and isinstance(n.ctx, ast.Load) and n.id not in fi.params():
            v = fi.module.assigns.get(n.id)
            owner = fi.module
            if v is None and n.id in fi.module.imports:
                tgt = prj._resolve_import(fi.module.imports[n.id])
                if isinstance(tgt, tuple) and tgt[0] == "modattr":
                    owner, v = tgt[1], tgt[1].assigns.get(tgt[2])
            if v is not None and (isinstance(v, ast.GeneratorExp) or (isinstance(v, ast.Call) and isinstance(v.func, ast.Name)
                                                                      and v.func.id in ("zip", "map", "filter", "iter", "reversed", "enumerate"))):
                if not any(isinstance(x, ast.Assign) and any(isinstance(t, ast.Name) and t.id == n.id for t in x.targets) for x in fi.walk()):
                    out.append((f"{owner.name}.{n.id} (a one-shot iterator, consumed here)", n))
    globs = set()
    for n in fi.walk():
        if isinstance(n, ast.Global):
            globs |= set(n.names)
    for n in fi.walk():
        if isinstance(n, (ast.Assign, ast.AugAssign, ast.AnnAssign)):
            tgts = n.targets if isinstance(n, ast.Assign) else [n.target]
            for t in tgts:
                base = t.value if isinstance(t, ast.Subscript) else t
                if isinstance(t, ast.Name) and t.id in globs:
                    out.append((f"{fi.module.name}.{t.id}", n))
                elif isinstance(t, (ast.Attribute, ast.Subscript)):
                    g = _global_target(prj, fi, base)
                    if g:
                        out.append((g, n))
                elif isinstance(t, ast.Name) and isinstance(n, ast.AugAssign):
                    g = _global_target(prj, fi, t)
                    if g and "alias" in g:
                        out.append((g, n))
        if isinstance(n, ast.Call) and isinstance(n.func, ast.Attribute) and n.func.attr in MUTATORS:
            g = _global_target(prj, fi, n.func.value)
            if g:
                out.append((g, n))
        if isinstance(n, ast.Delete):
            for t in n.targets:
                if isinstance(t, ast.Subscript):
                    g = _global_target(prj, fi, t.value)
                    if g:
                        out.append((g, n))
    return out


def _input_deps(prj, fi: FuncInfo, e, depth=0, seen=None) -> set:
    """the inputs of fi that the value of expression e is computed from, as access paths: 'p' for a parameter used as a whole,
    'p.attr' / 'p.method()' for what is read from it (also for the receiver), '*' when something cannot be traced.  Locals are
    followed through all their definitions, including what decides whether a definition happens."""
    from ..core import local_defs
    seen = seen if seen is not None else set()
    if e is None or depth > 8:
        return {"*"} if depth > 8 else set()
    params = set(fi.params())
    out = set()
    for n in ast.walk(e):
        if not (isinstance(n, ast.Name) and isinstance(n.ctx, ast.Load)):
            continue
        if n.id in params:
            # the longest attribute chain that starts at the parameter
            path, cur = n.id, n
            par = fi.parents.get(cur)
            while isinstance(par, ast.Attribute) and par.value is cur:
                path += "." + par.attr
                cur, par = par, fi.parents.get(par)
            if isinstance(par, ast.Call) and par.func is cur and cur is not n:
                path += "()"
            out.add(path)
        elif (fi.qual, n.id) in seen:
            continue
        else:
            defs = local_defs(fi, n.id)
            if defs:
                seen.add((fi.qual, n.id))
                for v, st in defs:
                    if v is None:
                        # not a plain assignment: what the binding draws from
                        if isinstance(st, ast.AugAssign):
                            v = st.value
                        elif isinstance(st, (ast.For, ast.comprehension)):
                            v = st.iter
                        elif isinstance(st, ast.withitem):
                            v = st.context_expr
                        elif isinstance(st, ast.Assign):
                            v = st.value
                    out |= _input_deps(prj, fi, v, depth + 1, seen) if v is not None else {"*"}
                    # what decides whether this binding happens at all
                    q = fi.parents.get(st)
                    while q is not None and not isinstance(q, (ast.FunctionDef, ast.AsyncFunctionDef, ast.Lambda)):
                        if isinstance(q, (ast.If, ast.While, ast.IfExp)):
                            out |= _input_deps(prj, fi, q.test, depth + 1, seen)
                        elif isinstance(q, ast.For):
                            out |= _input_deps(prj, fi, q.iter, depth + 1, seen)
                        q = fi.parents.get(q)
            # module-level names (constants, functions, classes) and builtins are not inputs of the call
    return out


def _key_captures(prj, fi: FuncInfo, e, depth=0) -> set:
    """the access paths whose VALUE is part of the key expression e: a parameter, an attribute chain on one, the elements of a
    tuple, a local with one plain definition of such a form.  A call in the key (len(x), str(x), x.method()) captures a function
    of its arguments, not the arguments: it contributes only itself."""
    from ..core import local_defs
    if depth > 6:
        return set()
    params = set(fi.params())
    if isinstance(e, ast.Tuple):
        out = set()
        for x in e.elts:
            out |= _key_captures(prj, fi, x, depth + 1)
        return out
    ch = attr_chain(e) if isinstance(e, (ast.Name, ast.Attribute)) else None
    if ch and "()" not in ch:
        head = ch.split(".")[0]
        if head in params:
            return {ch}
        if isinstance(e, ast.Name):
            defs = local_defs(fi, e.id)
            if len(defs) == 1 and defs[0][0] is not None:
                return _key_captures(prj, fi, defs[0][0], depth + 1)
        return set()
    if isinstance(e, ast.Call):
        # a pure conversion that keeps all information of a hashable argument
        if isinstance(e.func, ast.Name) and e.func.id in ("tuple", "frozenset") and len(e.args) == 1 and not e.keywords:
            return _key_captures(prj, fi, e.args[0], depth + 1)
        path = None
        if isinstance(e.func, ast.Attribute):
            c2 = attr_chain(e.func)
            if c2 and c2.split(".")[0] in params and not e.args and not e.keywords:
                path = c2 + "()"
        return {path} if path else set()
    return set()


def _initially_empty_dict(prj, fi: FuncInfo, target) -> bool:
    """the written object is a module-level name bound once, to an empty dictionary: what it holds comes from writes like this one"""
    if not isinstance(target, ast.Name):
        return False
    d_ = _mutable_default_params(fi).get(target.id)
    if d_ is not None:
        return (isinstance(d_, ast.Dict) and not d_.keys) or (isinstance(d_, ast.Call) and attr_chain(d_.func) in ("dict", "OrderedDict") and not d_.args and not d_.keywords)
    mods = [fi.module]
    imp = fi.module.imports.get(target.id)
    if imp is not None:
        tgt = prj._resolve_import(imp)
        if isinstance(tgt, tuple) and tgt[0] == "modattr":
            mods = [tgt[1]]
            name = tgt[2]
        else:
            return False
    else:
        name = target.id
    v = mods[0].assigns.get(name)
    if v is None:
        return False
    if isinstance(v, ast.Dict) and not v.keys:
        return True
    return isinstance(v, ast.Call) and attr_chain(v.func) in ("dict", "OrderedDict", "collections.OrderedDict", "WeakValueDictionary", "weakref.WeakValueDictionary") \
        and not v.args and not v.keywords


def memo_verdict(prj, fi: FuncInfo, n):
    """a write `G[key] = value` to a module-level dictionary that starts empty, read as a memo: -> ('memo', missing inputs) where
    missing = inputs the stored value is computed from whose value is not part of the key; ('other', None) when the write is not
    of that form (a registry filled elsewhere, an attribute, a counter)"""
    if not isinstance(n, ast.Assign):
        return "other", None
    subs = [t for t in n.targets if isinstance(t, ast.Subscript)]
    if len(subs) != 1 or not _initially_empty_dict(prj, fi, subs[0].value):
        return "other", None
    key, val = subs[0].slice, n.value
    kd, vd = _key_captures(prj, fi, key), _input_deps(prj, fi, val)
    if not kd:
        return "other", None        # a fixed key: a flag or a setting kept for the rest of the process, not a memo of a computation
    if "*" in vd:
        return "memo", {"(something that could not be traced)"}
    missing = set()
    for d in vd:
        # covered when the key holds the same access path, or the object it is read from as a whole
        prefixes = [d]
        base = d
        while "." in base:
            base = base.rsplit(".", 1)[0]
            prefixes.append(base)
        if any(p_ in kd for p_ in prefixes):
            continue
        missing.add(d)
    return "memo", missing


def rule_no_state_left(ctx, prj, rid: str, roots: list, what: str):
    """shared with C18 / C19: nothing reachable from the given renderers modifies module-level or class-level state or a mutable
    default argument in place (a memo whose key contains every input of the stored value excepted): rendering a second report in
    the same process shows that report, not what the first rendering left behind"""
    ctx.rule(rid, f"{what}: no function reachable from them modifies module-level or class-level state, or a mutable default argument, in "
                  f"place (except a memo whose key contains every input of the stored value): a second rendering in the same process "
                  f"is not affected by the first", floor=0)
    roots = [r for r in roots if prj.maybe_func(r) is not None]
    if not roots:
        ctx.info(f"{rid}: none of the renderer entry points found; not judged")
        return
    fns = analysis_functions(prj, roots)
    n = 0
    for fi in fns:
        for g, node in state_writes(prj, fi):
            g0 = g.split(" (")[0]
            if (fi.qual, g0) in ALLOWED_STATE_WRITES:
                continue
            if fi.qual == "codelimit.common.Configuration:Configuration.load" and g0.startswith("Configuration."):
                # the process configuration is the state load() exists to set (today it is called by the command-line callbacks)
                continue
            kind, missing = memo_verdict(prj, fi, node)
            if kind == "memo" and not missing:
                ctx.ok(rid, fi.site(node), f"{fi.local}: a memo in {g0} whose key contains every input of the stored value")
                continue
            n += 1
            extra = (f"; read as a memo, the stored value also depends on {sorted(missing)}, which the key does not capture") if kind == "memo" else ""
            ctx.viol(rid, f"{fi.local}/writes/{g0}", fi.site(node),
                     f"`{unparse(node)[:70]}` modifies process-wide state {g}: what one run leaves there is seen by (or shown with, or instead of) "
                     f"the next run of the same process" + extra)
    if not n:
        ctx.ok(rid, prj.func(roots[0]).site(), f"{len(fns)} functions reachable from the renderers: no process-wide state written")


def rule_R4(ctx, prj, fns):
    ctx.rule("R4", "no function reachable from scan_file / scan_path / check_command writes module-level or class-level "
                   "state, except State._id (labels only); DEFAULT_EXCLUDES is copied before it is extended", floor=1)
    found = 0
    for fi in fns:
        for g, n in state_writes(prj, fi):
            found += 1
            g0 = g.split(" (")[0]
            if (fi.qual, g0) in ALLOWED_STATE_WRITES:
                ctx.ok("R4", fi.site(n), f"{fi.local}: writes {g0} - admitted: {ALLOWED_STATE_WRITES[(fi.qual, g0)]}")
            else:
                kind, missing = memo_verdict(prj, fi, n)
                if kind == "memo" and not missing:
                    ctx.ok("R4", fi.site(n), f"{fi.local}: stores into {g0} under a key that determines the stored value (a memo: every input the value is computed from is part of the key)")
                    continue
                extra = (f"; read as a memo, the stored value also depends on {sorted(missing)}, which the key does not capture: a later call with another "
                         f"value of it gets the stale entry") if kind == "memo" else ""
                ctx.viol("R4", f"{fi.local}/writes/{g0}", fi.site(n),
                         f"`{unparse(n)[:70]}` modifies process-wide state {g} during analysis: what one file (or one scan) leaves there "
                         f"is seen by the next, so results stop depending on language and content alone" + extra)
    # the admitted counter must flow nowhere but into ids
    st = prj.func("codelimit.common.gsm.automata.State:State.__init__")
    reads = [n for n in st.walk() if isinstance(n, ast.Attribute) and unparse(n) == "State._id" and isinstance(n.ctx, ast.Load)]
    uses_ok = all(isinstance(st.parents.get(n), ast.Assign) and unparse(st.parents[n].targets[0]) == "self.id" or isinstance(st.parents.get(n), ast.AugAssign)
                  for n in reads)
    if not uses_ok:
        ctx.viol("R4", "State._id/flow", st.site(), "the global state counter flows into something other than State.id")
    if found == 0:
        raise AnalysisError("no write to process-wide state found on the analysis path, not even State._id: effect inventory broken")


NONDET = {"uuid4": "uuid", "uuid.uuid4": "uuid", "datetime.now": "clock", "datetime.utcnow": "clock", "time.time": "clock",
          "time.monotonic": "clock", "time.perf_counter": "clock", "random.random": "random", "random.choice": "random",
          "random.shuffle": "random", "random.randint": "random", "os.urandom": "random", "os.getpid": "pid"}


def rule_R5(ctx, prj):
    ctx.rule("R5", "nondeterministic sources reachable from scan_command are exactly uuid4() and datetime.now() in "
                   "Report.__init__ (flowing to uuid / timestamp); id() is only used as a dictionary key or inside "
                   "__str__/__repr__, hash() only inside __hash__", floor=3)
    fns = analysis_functions(prj, ["codelimit.commands.scan:scan_command"] + ENTRY)
    for fi in fns:
        for c in fi.calls():
            nm = attr_chain(c.func) or ""
            if nm in NONDET or nm.split(".")[-1] in ("uuid4", "urandom"):
                if fi.qual == "codelimit.common.report.Report:Report.__init__":
                    sinks = _sinks(fi, c)
                    if sinks <= {"self.uuid", "self.timestamp"}:
                        ctx.ok("R5", fi.site(c), f"Report.__init__: {nm}() -> {', '.join(sorted(sinks))}")
                    else:
                        ctx.viol("R5", f"Report.__init__/{nm}", fi.site(c), f"{nm}() flows to {', '.join(sorted(sinks - {'self.uuid', 'self.timestamp'}))}, not only to uuid/timestamp")
                else:
                    ctx.viol("R5", f"{fi.local}/{nm}", fi.site(c), f"{nm}() is called during analysis: results differ between runs")
            if nm == "id" and len(c.args) == 1:
                sinks = _sinks(fi, c)
                ok = fi.name in ("__str__", "__repr__") or sinks <= {"key"} or \
                    (sinks <= {"key", "str()"} and "state_set_id" in fi.name)
                if ok:
                    ctx.ok("R5", fi.site(c), f"{fi.local}: id() used as a key / label")
                elif sinks & {"return", "str()"} or any(x.startswith("self.") for x in sinks):
                    ctx.viol("R5", f"{fi.local}/id()", fi.site(c), "an object address (id()) flows into a result: differs between runs")
                else:
                    # where the address ends up is not one of the recognised flows: nothing recognised, nothing reported
                    ctx.info(f"R5: {fi.local}: id() flows to {sorted(sinks)} - not a recognised result flow, not judged")
            if nm == "hash" and fi.name != "__hash__":
                ctx.viol("R5", f"{fi.local}/hash()", fi.site(c), "hash() of a str depends on PYTHONHASHSEED and is used outside __hash__")


def _sinks(fi: FuncInfo, node, depth=0) -> set:
    """where the value of `node` ends up inside fi: 'self.<attr>', 'key' (dictionary key / membership test), 'return',
    'str()' or 'other:<construct>'; follows value-preserving wrappers (method calls on it, str(), f-strings) and locals"""
    if depth > 6:
        return {"other:depth"}
    cur = node
    while True:
        par = fi.parents.get(cur)
        if par is None:
            return {"other:none"}
        if _is_key_use(fi, cur):
            return {"key"}
        if isinstance(par, ast.Attribute) and par.value is cur:
            cur = par
            continue
        if isinstance(par, ast.Call):
            if par.func is cur:
                cur = par
                continue
            nm = attr_chain(par.func) or ""
            if nm == "str" and len(par.args) == 1:
                cur = par
                continue
            return {"other:argument of " + (nm or "call")}
        if isinstance(par, (ast.FormattedValue, ast.JoinedStr)):
            cur = par
            continue
        if isinstance(par, ast.NamedExpr) and par.value is cur:
            out = _uses_sinks(fi, par.target.id, depth)
            cur = par
            return out | _sinks(fi, par, depth + 1) if not isinstance(fi.parents.get(par), ast.Expr) else out
        if isinstance(par, (ast.Assign, ast.AnnAssign)):
            tgts = par.targets if isinstance(par, ast.Assign) else [par.target]
            out = set()
            for t in tgts:
                if isinstance(t, ast.Name):
                    out |= _uses_sinks(fi, t.id, depth)
                elif isinstance(t, ast.Attribute) and isinstance(t.value, ast.Name) and t.value.id == "self":
                    out.add("self." + t.attr)
                elif isinstance(t, ast.Subscript) and isinstance(t.value, ast.Name):
                    out |= _uses_sinks(fi, t.value.id, depth) or {"other:dead store"}
                elif isinstance(t, ast.Subscript):
                    out.add("other:store into " + unparse(t.value)[:30])
                else:
                    out.add("other:" + type(t).__name__)
            return out
        if isinstance(par, ast.Return):
            return {"return"}
        if isinstance(par, ast.Expr):
            return set()
        if isinstance(par, ast.Tuple):
            # `a, key = m, id(x)`: the element goes to the target at the same position
            gp = fi.parents.get(par)
            if isinstance(gp, ast.Assign) and len(gp.targets) == 1 and isinstance(gp.targets[0], ast.Tuple) and len(gp.targets[0].elts) == len(par.elts):
                t = gp.targets[0].elts[par.elts.index(cur)]
                if isinstance(t, ast.Name):
                    return _uses_sinks(fi, t.id, depth)
            if _is_key_use(fi, par):
                return {"key"}
            return {"other:Tuple"}
        if isinstance(par, ast.Lambda) and par.body is cur:
            # the value of a key function (sorted / min / max / groupby): compared, never shown
            gp = fi.parents.get(par)
            if isinstance(gp, ast.keyword) and gp.arg == "key":
                return {"key"}
            if isinstance(gp, ast.Call) and (attr_chain(gp.func) or "").split(".")[-1] == "groupby" and len(gp.args) == 2 and gp.args[1] is par:
                return {"key"}
            return {"other:Lambda"}
        return {"other:" + type(par).__name__}


def _uses_sinks(fi, name, depth):
    out = set()
    for n in fi.walk():
        if isinstance(n, ast.Name) and n.id == name and isinstance(n.ctx, ast.Load):
            out |= _sinks(fi, n, depth + 1)
    return out


def _is_key_use(fi: FuncInfo, u) -> bool:
    par = fi.parents.get(u)
    if isinstance(par, ast.Subscript) and par.slice is u:
        return True
    if isinstance(par, ast.Compare) and isinstance(par.ops[0], (ast.In, ast.NotIn)) and par.left is u:
        return True
    if isinstance(par, ast.Call) and isinstance(par.func, ast.Attribute) and par.func.attr in ("get", "setdefault", "pop") \
            and par.args and par.args[0] is u:
        return True
    return False


def rule_R6(ctx, prj):
    ctx.rule("R6", "no shipped expression contains two equal stateful (Balanced) atoms: nfa_to_dfa deduplicates equal "
                   "predicates through a set, so which copy labels a DFA transition - and therefore which depth counter "
                   "is advanced - would depend on set iteration order", floor=9)
    for h in extract_header_patterns(prj):
        for which, pat in (("header", h.expr), ("follow-up", h.follow)):
            if pat is None:
                continue
            seen = []
            dup = None
            for a in pat.atoms():
                if any(p.cls == "Balanced" for p in a.pred.walk()):
                    if a.pred in seen:
                        dup = a.pred
                    seen.append(a.pred)
            if dup is not None:
                ctx.viol("R6", f"{h.key}/{which}/duplicate-stateful-atom", h.fi.site(h.call),
                         f"{h.key} {which} pattern contains {dup!r} twice; the two copies are merged by equality when the DFA is built")
            else:
                ctx.ok("R6", h.fi.site(h.call), f"{h.key}/{which}: stateful atoms pairwise distinct ({len(seen)})")


def run(ctx, prj: Project):
    ctx.explanation = (
        "Effect analysis over the call graph from scan_file / scan_path / check_command (class-hierarchy closed): "
        "classification of every set iteration, the all-transitions discipline of Pattern.consume, receivers of "
        "stateful predicate methods, an inventory of writes to module/class level state (with local aliases of "
        "globals), nondeterministic sources and uses of id()/hash(). Pygments' own determinism is trusted.")
    ctx.not_decided = ["determinism of the pygments lexers", "order in which os.walk lists files (reports may differ in file order by the property's wording)"]
    ctx.trust("call graph of sa.core with class-hierarchy analysis (unresolved attribute calls are resolved by method name over all project classes)",
              "pygments lexers are deterministic functions of the text")
    fns = analysis_path(prj)
    ctx.extra["analysis_path_functions"] = len(fns)
    r = rule_R2(ctx, prj)
    order_free = rule_R8_set_order(ctx, prj) and not r.order_dependent
    # the structural classification of set iterations is a proxy: inside the engine (gsm package) a finding is not reported
    # when the engine, evaluated under both set orders, gives the same results and consume ignores the transition order
    mark = len(ctx.violations)
    rule_R1(ctx, prj, fns)
    if order_free:
        kept = []
        for v in ctx.violations[mark:]:
            if "/gsm/" in str(v.site):
                ctx.info(f"R1 (structural) would report {v.key} at {v.site}; the engine evaluated under both set iteration orders gives the same results (R8)")
                for inst in ctx.instances.get("R1", []):
                    if inst.get("what") == v.key and inst.get("verdict") == "violation":
                        inst["verdict"] = "not reported (decided by R8)"
            else:
                kept.append(v)
        ctx.violations[mark:] = kept
        if ctx.count("R1") < ctx.floors.get("R1", 0):
            ctx.info(f"R1: {ctx.count('R1')} set iterations recognised in this form of the code; inside the engine R8 decides")
            ctx.floors.pop("R1", None)
    # R3 reads the receivers of accept()/is_open() syntactically; the evaluated selection rule (R2) already shows whether the
    # predicates Pattern.consume calls are per-attempt copies (no call reached the automaton's shared predicate objects)
    ctx.complement("R3", lambda: rule_R3(ctx, prj, fns, r), decided=bool(r.copies_predicates) and r.scenarios == 32, demote=True,
                   by="the evaluated Pattern.consume (every accept()/is_open() call of the 32 scenarios reached a copy)")
    rule_R4(ctx, prj, fns)
    rule_R5(ctx, prj)
    rule_R6(ctx, prj)
    rule_R9_exclusion_order(ctx, prj)
