"""C11 - Exactly the non-hidden, non-excluded files of supported languages are analysed."""
from __future__ import annotations

import ast

from ..core import (AnalysisError, FuncInfo, Project, attr_chain, const_str, effective_callers, enclosing, expand, guards_of, local_defs,
                    term, try_handlers_covering, handler_names, unparse)
from ..walkers import analysing_calls, check_hidden, classify_guard, find_walkers

SC = "codelimit.common.Scanner"


def rule_R1(ctx, prj, w):
    ctx.rule("R1", "inside the os.walk loop of scan_path the directory list is pruned IN PLACE and the file list is "
                   "filtered, both by exactly 'name does not start with a dot'", floor=2)
    check_hidden(ctx, "R1", w, "scan_path")


def _same_root(fi: FuncInfo, a, b) -> bool:
    return term(fi, a) == term(fi, b)


def rule_R2(ctx, prj, w):
    ctx.rule("R2", "between the head of the per-file loop and the analysing call a file is skipped for exactly these "
                   "reasons: is_excluded(<path relative to the walk root>, generate_exclude_spec(<root>)) is true, the "
                   "lexer lookup raises ClassNotFound, or the lexer's language is not in Languages.by_name; no other "
                   "condition filters files", floor=3)
    fi = w.fi
    calls = analysing_calls(prj, w, ("_scan_file",))
    if len(calls) != 1:
        raise AnalysisError(f"{fi.disp}: expected exactly one analysing call (_scan_file) in the per-file loop, found {len(calls)}")
    call = calls[0]
    fl = [l for l in w.file_loops if any(c is call for c in ast.walk(l))][0]
    gs = guards_of(fi, call, stop_at=fl)
    seen_excl = seen_lang = False
    for g in gs:
        kind, c = classify_guard(prj, fi, g)
        if kind == "not-excluded":
            seen_excl = True
            # provenance of the path and of the spec
            if len(c.args) < 2:
                raise AnalysisError(f"{fi.site(c)}: is_excluded called with {len(c.args)} arguments")
            P, S = expand(fi, c.args[0]), expand(fi, c.args[1])
            ptxt, stxt = unparse(P), unparse(S)
            rel_ok = False
            for n in ast.walk(P):
                if isinstance(n, ast.Call) and isinstance(n.func, ast.Attribute) and n.func.attr == "relative_to" and n.args:
                    if w.W is not None and term(fi, n.args[0]) == term(fi, w.W) and w.root in {x.id for x in ast.walk(n.func.value) if isinstance(x, ast.Name)}:
                        rel_ok = True
                if isinstance(n, ast.Call) and attr_chain(n.func) in ("relpath", "os.path.relpath") and len(n.args) == 2:
                    if w.W is not None and term(fi, n.args[1]) == term(fi, w.W):
                        rel_ok = True
            spec_ok = isinstance(S, ast.Call) and prj.resolve_callee_name(fi, S).endswith(":generate_exclude_spec") \
                and S.args and unparse(S.args[0]) == fi.params()[0]
            if rel_ok and spec_ok:
                ctx.ok("R2", fi.site(c), f"scan_path: skipped iff is_excluded({ptxt[:60]}, {stxt})")
            else:
                if not rel_ok:
                    ctx.viol("R2", "scan_path/excluded-path", fi.site(c),
                             f"the path tested against the exclusions is {ptxt[:90]}; required: the file's path relative to the walk root "
                             f"{unparse(w.W)} (gitignore patterns are root-relative)")
                if not spec_ok:
                    ctx.viol("R2", "scan_path/exclude-spec", fi.site(c), f"the exclusion spec is {stxt[:90]}; required generate_exclude_spec({fi.params()[0]})")
        elif kind == "language-supported":
            seen_lang = True
            ctx.ok("R2", fi.site(g.test), f"scan_path: analysed only if {unparse(g.test)}")
        elif kind in ("not-hidden", "flag"):
            continue
        elif kind in ("excluded-only", "language-unsupported-only"):
            ctx.viol("R2", f"scan_path/{kind}", fi.site(g.test), f"the analysing call runs only when {unparse(g.test)} is {g.polarity}: selection inverted")
        else:
            ctx.viol("R2", "scan_path/extra-filter", fi.site(g.test),
                     f"files are additionally filtered by `{'' if g.polarity else 'not '}{unparse(g.test)[:90]}`: a file that is neither hidden, "
                     f"excluded nor of an unsupported language can be skipped (or an excluded one analysed)")
    if not seen_excl:
        ctx.viol("R2", "scan_path/no-exclusion-test", fi.site(call), "the analysing call is not dominated by `if is_excluded(...): continue`")
    if not seen_lang:
        ctx.viol("R2", "scan_path/no-language-gate", fi.site(call), "the analysing call is not dominated by `lexer_name in Languages.by_name`")
    # ClassNotFound handled around the lexer lookup
    lookups = [c for c in ast.walk(fl) if isinstance(c, ast.Call) and attr_chain(c.func) == "get_lexer_for_filename"]
    if not lookups:
        raise AnalysisError(f"{fi.disp}: get_lexer_for_filename lookup not found in the per-file loop")
    for c in lookups:
        hs = try_handlers_covering(fi, c)
        caught = [n for _, h in hs for n in handler_names(h)]
        if any(n.split(".")[-1] in ("ClassNotFound", "Exception", "BaseException", "ValueError") for n in caught):
            ctx.ok("R2", fi.site(c), "scan_path: get_lexer_for_filename inside try/except ClassNotFound")
        else:
            ctx.viol("R2", "scan_path/classnotfound", fi.site(c), "get_lexer_for_filename is not inside a try that handles ClassNotFound: an unsupported file name aborts the scan")
    # is_excluded itself
    ie = prj.func(f"{SC}:is_excluded")
    rets = [n for n in ie.walk() if isinstance(n, ast.Return) and n.value is not None]
    ps = ie.params()
    ok = len(rets) == 1 and isinstance(rets[0].value, ast.Call) and isinstance(rets[0].value.func, ast.Attribute) \
        and rets[0].value.func.attr == "match_file" and unparse(rets[0].value.func.value) == ps[1] \
        and len(rets[0].value.args) == 1 and unparse(rets[0].value.args[0]) == ps[0]
    if ok:
        ctx.ok("R2", ie.site(), "is_excluded(path, spec) == spec.match_file(path)")
    else:
        ctx.viol("R2", "is_excluded/definition", ie.site(), f"is_excluded returns {unparse(rets[0].value) if rets else 'nothing'}; required spec.match_file(path)")
    return call


def rule_R3(ctx, prj):
    if rule_R3_evaluated(ctx, prj):
        return
    rule_R3_structural(ctx, prj)


def rule_R3_evaluated(ctx, prj) -> bool:
    """generate_exclude_spec and Configuration.load evaluated: which pattern lines reach PathSpec.from_lines"""
    from ..absint import BoundFunc, MiniInterp, PyRaise, Sym, T, Unknown
    from ..fsmodel import VFS, PathV, fs_hook
    ctx.rule("R3", "generate_exclude_spec evaluated: PathSpec.from_lines receives the style 'gitignore' and, in this order, the "
                   "built-in exclusions, the configured ones (Configuration.exclude) and the lines of <root>/.gitignore (none when "
                   "the file is absent); a second call receives the same lines (nothing is accumulated in the constants); "
                   "Configuration.load appends the 'exclude' list of .codelimit.yml to what the command line already put there", floor=4)
    fi = prj.func(f"{SC}:generate_exclude_spec")
    conf = prj.cls("codelimit.common.Configuration:Configuration")
    load = conf.find_method("load")
    tree = {"/r": ([], [".gitignore", ".codelimit.yml"]), "/n": ([], [])}
    try:
        defaults = MiniInterp(prj).ev(fi.module.assigns["DEFAULT_EXCLUDES"], {}, fi) if "DEFAULT_EXCLUDES" in fi.module.assigns else None
        if not isinstance(defaults, list) or not defaults:
            raise Unknown("DEFAULT_EXCLUDES is not a module-level list")

        def run(root, times=1):
            vfs = VFS(tree, "/r")
            vfs.texts["/r/.gitignore"] = "gi-one\n!gi-two\n"
            fs = fs_hook(vfs)
            captured = []

            def hook(it, kind, f, args, kwargs, node, cur):
                r = fs(it, kind, f, args, kwargs, node, cur)
                if r is not NotImplemented:
                    return r
                if kind == "call" and isinstance(f, tuple) and f and f[0] == "external" and f[1].replace(":", ".").endswith("from_lines"):
                    lines = args[1] if len(args) > 1 else kwargs.get("lines")
                    lines = lines.rest() if hasattr(lines, "rest") else list(lines)
                    captured.append((args[0] if args else kwargs.get("pattern_factory"), list(lines)))
                    return Sym("spec")
                if kind == "call" and isinstance(f, tuple) and f and f[0] == "external" and f[1].replace(":", ".").split(".")[-1] == "load" and "yaml" in f[1]:
                    return {"exclude": ["yml-one", "yml-two"]}
                return NotImplemented
            it = MiniInterp(prj, hook)
            it.class_state[(conf.qual, "exclude")] = ["cli-one"]
            for _ in range(times):
                it.call(fi, [PathV(root)], {})
            return captured, it
        cap, it = run("/r", times=2)
        want = list(defaults) + ["cli-one", "gi-one", "!gi-two"]
        for i, (style, lines) in enumerate(cap):
            if style != "gitignore":
                ctx.viol("R3", "generate_exclude_spec/style", fi.site(), f"pattern style is {style!r}; required 'gitignore'")
            elif lines != want:
                missing = [x for x in want if x not in lines]
                extra = [x for x in lines if x not in want or lines.count(x) > want.count(x)]
                what = "the second call receives other lines than the first: the pattern constants are modified in place" if i == 1 and cap[0][1] == want else \
                    f"missing {missing[:4]}" if missing else f"unexpected or repeated {extra[:4]}" if extra else "same lines in another order (the last matching pattern wins, so the order is part of the meaning)"
                ctx.viol("R3", "generate_exclude_spec/default-not-copied" if i == 1 and cap[0][1] == want else "generate_exclude_spec/sources", fi.site(),
                         f"call {i + 1}: PathSpec.from_lines receives {len(lines)} lines; required the {len(defaults)} built-in exclusions, then the configured "
                         f"one, then the two .gitignore lines: {what}")
            else:
                ctx.ok("R3", fi.site(), f"call {i + 1} for a root with .gitignore: {len(defaults)} built-in + configured + .gitignore lines, in this order")
        cap2, _ = run("/n")
        if cap2 and cap2[0][1] == list(defaults) + ["cli-one"]:
            ctx.ok("R3", fi.site(), "root without .gitignore: built-in + configured lines")
        else:
            ctx.viol("R3", "generate_exclude_spec/no-gitignore", fi.site(), f"for a root without .gitignore the spec receives {cap2[0][1][-3:] if cap2 else 'nothing'}")
        # Configuration.load
        if load is not None:
            vfs = VFS(tree, "/r")
            vfs.texts["/r/.codelimit.yml"] = "exclude: [yml-one, yml-two]"
            fs = fs_hook(vfs)

            def hook2(it, kind, f, args, kwargs, node, cur):
                r = fs(it, kind, f, args, kwargs, node, cur)
                if r is not NotImplemented:
                    return r
                if kind == "call" and isinstance(f, tuple) and f and f[0] == "external" and "yaml" in f[1] and f[1].replace(":", ".").split(".")[-1] in ("load", "safe_load", "full_load"):
                    return {"exclude": ["yml-one", "yml-two"]}
                return NotImplemented
            it2 = MiniInterp(prj, hook2)
            it2.class_state[(conf.qual, "exclude")] = ["cli-one"]
            it2.call(prj.func(load.qual), [PathV("/r")], {}, self_obj=T("class", conf))
            got = it2.class_state.get((conf.qual, "exclude"))
            lf = prj.func(load.qual)
            if got == ["cli-one", "yml-one", "yml-two"]:
                ctx.ok("R3", lf.site(), "Configuration.load: the file's exclusions are appended to those of the command line")
            else:
                ctx.viol("R3", "Configuration.load/exclude-rebound", lf.site(), f"after --exclude cli-one and a .codelimit.yml with [yml-one, yml-two] the configured exclusions are {got}; "
                         f"required ['cli-one', 'yml-one', 'yml-two'] (one source replaces the other)")
    except (Unknown, PyRaise) as e:
        ctx.info(f"exclusion spec not evaluable ({type(e).__name__}: {e}); structural rule decides")
        ctx.violations[:] = [v for v in ctx.violations if v.rule != "R3"]
        ctx.instances["R3"] = []
        return False
    return True


def rule_R3_structural(ctx, prj):
    ctx.rule("R3", "the exclusion spec is PathSpec.from_lines('gitignore', L) where L receives a COPY of DEFAULT_EXCLUDES, "
                   "Configuration.exclude and the lines of <root>/.gitignore; --exclude options and the 'exclude' key of "
                   ".codelimit.yml are accumulated into Configuration.exclude (never rebound)", floor=6)
    fi = prj.func(f"{SC}:generate_exclude_spec")
    root = fi.params()[0]
    fl = [c for c in fi.calls() if (attr_chain(c.func) or "").endswith("PathSpec.from_lines") or (attr_chain(c.func) or "") == "from_lines"]
    if len(fl) != 1:
        raise AnalysisError(f"{fi.disp}: expected one PathSpec.from_lines call")
    c = fl[0]
    style = const_str(c.args[0]) if c.args else None
    if style == "gitignore":
        ctx.ok("R3", fi.site(c), "generate_exclude_spec: pattern style 'gitignore'")
    else:
        ctx.viol("R3", "generate_exclude_spec/style", fi.site(c), f"pattern style is {style!r}; required 'gitignore'")
    L = c.args[1] if len(c.args) > 1 else None
    if not isinstance(L, ast.Name):
        raise AnalysisError(f"{fi.site(c)}: pattern list is not a local name: {unparse(L)}")
    lname = L.id
    sources = []   # (kind, node)
    for val, st in local_defs(fi, lname):
        if val is not None:
            sources.append(("init", val, st))
    for call in fi.calls():
        if isinstance(call.func, ast.Attribute) and call.func.attr in ("extend", "append") and unparse(call.func.value) == lname and call.args:
            sources.append(("extend", call.args[0], call))
    for n in fi.walk():
        if isinstance(n, ast.AugAssign) and unparse(n.target) == lname:
            sources.append(("extend", n.value, n))
    has_default = has_conf = has_git = False
    for kind, val, st in sources:
        t = term(fi, val)
        if "DEFAULT_EXCLUDES" in t:
            copied = kind == "init" and (t in ("DEFAULT_EXCLUDES.copy()", "list(DEFAULT_EXCLUDES)", "DEFAULT_EXCLUDES[:]", "[*DEFAULT_EXCLUDES]")
                                         or t.startswith("DEFAULT_EXCLUDES + ") or t.startswith("[*DEFAULT_EXCLUDES,"))
            if kind == "init" and not copied and t == "DEFAULT_EXCLUDES":
                ctx.viol("R3", "generate_exclude_spec/default-not-copied", fi.site(st),
                         "the list is the module constant DEFAULT_EXCLUDES itself and is extended in place: every call leaks "
                         "this run's configured and .gitignore patterns into all later scans of the process")
            has_default = True
            if copied or kind == "extend":
                ctx.ok("R3", fi.site(st), f"generate_exclude_spec: built-in exclusions flow in ({t})")
        if "Configuration.exclude" in t:
            has_conf = True
            ctx.ok("R3", fi.site(st), "generate_exclude_spec: Configuration.exclude flows in")
        if "_read_gitignore(" in t or ".gitignore" in t:
            arg_ok = f"_read_gitignore({root})" in t or ".gitignore" in t
            has_git = True
            if arg_ok:
                ctx.ok("R3", fi.site(st), f"generate_exclude_spec: lines of <{root}>/.gitignore flow in")
            else:
                ctx.viol("R3", "generate_exclude_spec/gitignore-root", fi.site(st), f".gitignore is read from {t}, not from the scan root {root}")
    for flag, what in ((has_default, "DEFAULT_EXCLUDES"), (has_conf, "Configuration.exclude"), (has_git, "the root .gitignore")):
        if not flag:
            ctx.viol("R3", f"generate_exclude_spec/missing-{what}", fi.site(), f"{what} no longer flows into the exclusion spec")
    # _read_gitignore reads <param>/.gitignore
    rg = prj.maybe_func(f"{SC}:_read_gitignore")
    if rg is not None:
        p = rg.params()[0]
        joins = [n for n in rg.walk() if isinstance(n, ast.Call) and isinstance(n.func, ast.Attribute) and n.func.attr == "joinpath"
                 and unparse(n.func.value) == p and n.args and const_str(n.args[0]) == ".gitignore"]
        divs = [n for n in rg.walk() if isinstance(n, ast.BinOp) and isinstance(n.op, ast.Div) and const_str(n.right) == ".gitignore"]
        if joins or divs:
            ctx.ok("R3", rg.site(), f"_read_gitignore reads {p}/.gitignore")
        else:
            ctx.viol("R3", "_read_gitignore/path", rg.site(), "_read_gitignore does not read '<root>/.gitignore'")
    # accumulation into Configuration.exclude
    writes = []
    for f2 in prj.funcs.values():
        for n in f2.walk():
            if isinstance(n, (ast.Assign, ast.AnnAssign)):
                tgts = n.targets if isinstance(n, ast.Assign) else [n.target]
                for t in tgts:
                    if unparse(t) in ("Configuration.exclude", "cls.exclude") and (unparse(t) != "cls.exclude" or (f2.cls and f2.cls.name == "Configuration")):
                        writes.append((f2, n, "rebind"))
            if isinstance(n, ast.AugAssign) and unparse(n.target) in ("Configuration.exclude", "cls.exclude"):
                writes.append((f2, n, "accumulate"))
            if isinstance(n, ast.Call) and isinstance(n.func, ast.Attribute) and n.func.attr in ("extend", "append") \
                    and unparse(n.func.value) in ("Configuration.exclude", "cls.exclude"):
                writes.append((f2, n, "accumulate"))
    accs = 0
    for f2, n, kind in writes:
        if kind == "rebind":
            ctx.viol("R3", f"{f2.local}/exclude-rebound", f2.site(n),
                     f"`{unparse(n)[:80]}` replaces Configuration.exclude: exclusions supplied earlier through another source "
                     f"(--exclude before .codelimit.yml, or the reverse) are discarded")
        else:
            accs += 1
            ctx.ok("R3", f2.site(n), f"{f2.local}: {unparse(n)[:70]} accumulates")
    # both CLI commands and the config file feed it
    want = {"codelimit.__main__:scan": "exclude", "codelimit.__main__:check": "exclude", "codelimit.common.Configuration:Configuration.load": '"exclude"'}
    for q, what in want.items():
        f2 = prj.func(q)
        reach = {f2.qual} | {x for x in prj.callgraph.reachable([f2.qual]) if x.startswith(("codelimit.__main__", "codelimit.common.Configuration"))}
        feeds = [n for ff, n, k in writes if ff.qual in reach and k == "accumulate"]
        if not feeds:
            ctx.viol("R3", f"{f2.local}/exclude-source", f2.site(), f"{f2.local} no longer feeds its {what} value into Configuration.exclude")


def rule_R4(ctx, prj):
    from ..absint import PyRaise, Unknown
    from .. import walk_eval as W
    try:
        es = W.scanned_entries(prj)
        ctx.rule("R4", "each analysed file is stored once, under its root-relative path, with the checksum of its bytes (the value of "
                       "calculate_checksum for that file) and the lexer's language name - read from the codebase returned by the "
                       "interpreted scan_path on the virtual tree", floor=3)
        sp = prj.func(f"{SC}:scan_path")
        want = {f[len(W.ROOT) + 1:]: f for f in W.expected()}
        keys = [e[0] for e in es]
        bad = None
        if sorted(keys) != sorted(want):
            bad = ("key", f"the codebase holds the keys {sorted(keys)[:6]}...; required the root-relative paths {sorted(want)[:6]}...")
        for k, path, lang, loc, vals, cs in es:
            if bad:
                break
            if path != k:
                bad = ("path", f"the entry stored under {k!r} carries the path {path!r}")
            elif lang != W.lexer_of(k):
                bad = ("language", f"the entry of {k} carries the language {lang!r}; required {W.lexer_of(k)!r}")
            elif cs != "sum:" + want[k]:
                bad = ("checksum", f"the entry of {k} carries the checksum {cs!r}; required calculate_checksum of {want[k]}")
        if bad:
            ctx.viol("R4", f"_scan_file/{bad[0]}", sp.site(), bad[1])
        else:
            ctx.ok("R4", sp.site(), f"{len(es)} entries keyed by root-relative path")
            ctx.ok("R4", sp.site(), "entries carry the lexer's language")
            ctx.ok("R4", sp.site(), "entries carry calculate_checksum(file)")
        cs = prj.func("codelimit.common.utils:calculate_checksum")
        d1, w1, d2, w2 = W.checksum_eval(prj)
        if (d1, d2) == (w1, w2):
            ctx.ok("R4", cs.site(), "calculate_checksum: the md5 of ALL bytes of the file (70000 bytes, > one 64 KiB block), recomputed when the bytes change")
        elif d1 != w1:
            ctx.viol("R4", "calculate_checksum/not-all-bytes", cs.site(), f"for a file of 70000 bytes calculate_checksum gives {d1}; the md5 of its bytes is {w1}: not the checksum of all its bytes")
        else:
            ctx.viol("R4", "calculate_checksum/stale", cs.site(), f"after the file's bytes changed beyond the first 64 KiB calculate_checksum still gives {d2}; the md5 of the new bytes is {w2} "
                     f"({'the same value as before: the result is cached by path, or only the first block is hashed' if d2 == d1 else 'another value'}): an edited file keeps its checksum and is taken from the cache")
        return
    except (Unknown, PyRaise) as e:
        ctx.info(f"entries not evaluable ({type(e).__name__}: {e}); structural rule decides")
        ctx.violations[:] = [v for v in ctx.violations if v.rule != "R4"]
        ctx.instances["R4"] = []
    rule_R4_structural(ctx, prj)


def rule_R4_structural(ctx, prj):
    ctx.rule("R4", "each analysed file is stored once, under relpath(file, root), with calculate_checksum(file) of its bytes "
                   "and the lexer's language name", floor=4)
    sf = prj.func(f"{SC}:_scan_file")
    af = prj.func(f"{SC}:_analyze_file")
    ps = sf.params()   # codebase, lexer, root, path, cached_report
    if len(ps) < 4:
        raise AnalysisError("_scan_file signature changed")
    root_p, path_p = ps[2], ps[3]
    # relpath
    rel_defs = [t for t in {term(sf, v) for n in ("rel_path",) for v, _ in local_defs(sf, n) if v is not None}]
    ctors = [c for c in sf.calls() if attr_chain(c.func) == "SourceFileEntry"] + [c for c in sf.calls() if prj.resolve_callee_name(sf, c).endswith(":_analyze_file")]
    if not ctors:
        raise AnalysisError("_scan_file builds no entry")
    for c in ctors:
        is_ctor = attr_chain(c.func) == "SourceFileEntry"
        a_path = c.args[0] if is_ctor else c.args[1]
        a_sum = c.args[1] if is_ctor else c.args[2]
        tp, tsum = term(sf, a_path), term(sf, a_sum)
        what = "SourceFileEntry" if is_ctor else "_analyze_file"
        if tp in (f"relpath({path_p}, {root_p})", f"os.path.relpath({path_p}, {root_p})"):
            ctx.ok("R4", sf.site(c), f"_scan_file: {what} keyed by relpath({path_p}, {root_p})")
        else:
            ctx.viol("R4", f"_scan_file/{what}-key", sf.site(c), f"entry key is {tp}; required relpath({path_p}, {root_p})")
        if tsum == f"calculate_checksum({path_p})":
            ctx.ok("R4", sf.site(c), f"_scan_file: {what} carries calculate_checksum({path_p})")
        else:
            ctx.viol("R4", f"_scan_file/{what}-checksum", sf.site(c), f"entry checksum is {tsum}; required calculate_checksum({path_p})")
    adds = [c for c in sf.calls() if isinstance(c.func, ast.Attribute) and c.func.attr == "add_file"]
    top = [c for c in adds if not enclosing(sf, c, (ast.If, ast.For, ast.While, ast.Try))]
    if len(adds) == 1 and len(top) == 1:
        ctx.ok("R4", sf.site(adds[0]), "_scan_file: codebase.add_file(entry) exactly once, unconditionally")
    else:
        ctx.viol("R4", "_scan_file/add_file", sf.site(), f"codebase.add_file is called at {len(adds)} site(s), {len(top)} unconditional; required exactly one unconditional call")
    # _analyze_file: language name and path/checksum passthrough
    aps = af.params()
    for c in af.calls():
        if attr_chain(c.func) == "SourceFileEntry":
            tl = term(af, c.args[2]) if len(c.args) > 2 else "?"
            if tl.endswith(".__class__.name") and tl.split(".")[0] == aps[3]:
                ctx.ok("R4", af.site(c), f"_analyze_file: language = {tl}")
            else:
                ctx.viol("R4", "_analyze_file/language", af.site(c), f"entry language is {tl}; required the lexer's name")
            if unparse(c.args[0]) != aps[1] or unparse(c.args[1]) != aps[2]:
                ctx.viol("R4", "_analyze_file/identity", af.site(c), f"entry built with ({unparse(c.args[0])}, {unparse(c.args[1])}); required ({aps[1]}, {aps[2]})")
    cc = prj.func("codelimit.common.utils:calculate_checksum")
    opens = [c for c in cc.calls() if attr_chain(c.func) == "open"]
    binmode = any(len(c.args) > 1 and const_str(c.args[1]) == "rb" or any(k.arg == "mode" and const_str(k.value) == "rb" for k in c.keywords) for c in opens)
    reads = [c for c in cc.calls() if isinstance(c.func, ast.Attribute) and c.func.attr in ("read", "read_bytes") and not c.args]
    chunked = [c for c in cc.calls() if isinstance(c.func, ast.Attribute) and c.func.attr == "read" and c.args]
    looped = [c for c in chunked if enclosing(cc, c, (ast.For, ast.While)) or any(
        isinstance(p, ast.Lambda) for p in _anc(cc, c)) and any(attr_chain(x.func) == "iter" for x in cc.calls())]
    updates = [c for c in cc.calls() if isinstance(c.func, ast.Attribute) and c.func.attr == "update"]
    pathread = [c for c in cc.calls() if isinstance(c.func, ast.Attribute) and c.func.attr == "read_bytes"]
    if (binmode or pathread) and reads and not chunked:
        ctx.ok("R4", cc.site(), "calculate_checksum hashes the complete bytes of the file (binary read())")
    elif binmode and chunked and len(looped) == len(chunked) and updates:
        ctx.ok("R4", cc.site(), "calculate_checksum hashes the complete bytes of the file (binary, chunked read in a loop feeding update())")
    elif chunked and not looped:
        ctx.viol("R4", "calculate_checksum/bytes", cc.site(chunked[0]), f"calculate_checksum reads only {unparse(chunked[0])} once: files that differ after that prefix get the same checksum")
    elif opens and not binmode and not pathread:
        ctx.viol("R4", "calculate_checksum/bytes", cc.site(), "calculate_checksum does not read the file in binary mode: the checksum is of decoded text, and undecodable files raise")
    else:
        raise AnalysisError(f"{cc.disp}: how the file content reaches the hash is not recognised")


def _anc(fi, node):
    cur = node
    while cur in fi.parents:
        cur = fi.parents[cur]
        yield cur


WHO = {
    f"{SC}:_scan_file": {f"{SC}:scan_path"},
    f"{SC}:_analyze_file": {f"{SC}:_scan_file"},
    f"{SC}:scan_file": {f"{SC}:_analyze_file", "codelimit.commands.check:check_file"},
    "codelimit.common.lexer_utils:lex": {f"{SC}:_analyze_file", "codelimit.commands.check:check_file"},
    f"{SC}:_read_file": {f"{SC}:_analyze_file", "codelimit.commands.check:check_file"},
}


def rule_R5(ctx, prj):
    ctx.rule("R5", "who-may-call: the analysing functions are reached only through the guarded sites (table of callers "
                   "confirmed by reading)", floor=5)
    cg = prj.callgraph
    for q, allowed in WHO.items():
        fi = prj.func(q)
        callers = effective_callers(prj, q)
        extra = callers - allowed - {fi.qual}
        if extra:
            for e in sorted(extra):
                ctx.viol("R5", f"{fi.local}<-{e.split(':')[1]}", prj.funcs[e].site(), f"{e} calls {fi.local} outside the hidden/excluded/language guards of the walkers")
        else:
            ctx.ok("R5", fi.site(), f"{fi.local} called only from {sorted(c.split(':')[1] for c in callers)}")


def rule_R6_evaluated(ctx, prj) -> bool:
    """scan_path evaluated on a virtual directory tree; False when it leaves the interpreted fragment"""
    from ..absint import PyRaise, Unknown
    from .. import walk_eval as W
    ctx.rule("R6", "scan_path evaluated on a virtual tree with one representative per reason of the property (hidden directory "
                   "at two depths, hidden file, excluded file at the top and below, excluded directory, name without lexer, "
                   "lexer of an unsupported language, supported files at three depths): exactly the qualifying files reach "
                   "_scan_file, each once, for the root given absolute, relative, from the parent and with a '..' segment; the "
                   "exclusion test receives the path relative to the root the spec was generated for", floor=4)
    fi = prj.func(f"{SC}:scan_path")
    want = W.expected()
    try:
        for desc, got, roots, exargs in W.scan_scenarios(prj):
            dup = sorted({x for x in got if got.count(x) > 1})
            missing = [x for x in want if x not in got]
            extra = [x for x in got if x not in want]
            if dup:
                ctx.viol("R6", "scan_path/analysed-twice", fi.site(), f"{desc}: {dup} reach _scan_file more than once")
            elif extra:
                why = W.why_not(extra[0])
                ctx.viol("R6", f"scan_path/analyses-{why.split()[0]}", fi.site(), f"{desc}: {extra[0]} is analysed although it is {why} ({len(extra)} such file(s): {extra[:4]})")
            elif missing:
                ctx.viol("R6", "scan_path/skips-qualifying", fi.site(), f"{desc}: the qualifying file {missing[0]} is not analysed ({len(missing)} missing: {missing[:4]}); "
                         f"exclusion was asked for {exargs[:6]} against the spec of {roots}")
            else:
                ctx.ok("R6", fi.site(), f"{desc}: exactly the {len(want)} qualifying of {len(W.all_files())} files analysed, once each")
    except (Unknown, PyRaise) as e:
        ctx.info(f"scan_path not evaluable ({type(e).__name__}: {e}); structural rules R1/R2 decide")
        ctx.rule("R6", "scan_path not evaluable by the interpreter: structural rules R1/R2 decide", floor=0)
        ctx.violations[:] = [v for v in ctx.violations if v.rule != "R6"]
        return False
    return True


def run(ctx, prj: Project):
    ctx.explanation = (
        "Selection logic of the scanner decided structurally: in-place pruning and the dot predicate (folded on sample "
        "names of both classes), the complete set of guards between the per-file loop head and the analysing call, the "
        "provenance of the tested path and of the exclusion spec, the three pattern sources and their accumulation, the "
        "identity (key, checksum, language) of stored entries, and a who-may-call table. gitignore semantics (pathspec) "
        "and the file-name -> lexer mapping (pygments) are trusted, not analysed.")
    ctx.not_decided = ["gitignore pattern semantics (pathspec)", "which names pygments maps to which lexer"]
    ctx.trust("os.walk honours in-place edits of the directory list (and only those)", "pathspec gitignore matching", "CPython ast")
    fi = prj.func(f"{SC}:scan_path")
    evaluated = rule_R6_evaluated(ctx, prj)
    if not evaluated:
        ws = find_walkers(fi)
        if len(ws) != 1:
            raise AnalysisError(f"scan_path: expected one os.walk loop, found {len(ws)}")
        w = ws[0]
        rule_R1(ctx, prj, w)
        rule_R2(ctx, prj, w)
    decided = evaluated and not any(v.rule == "R6" for v in ctx.violations)
    ctx.complement("R3", lambda: rule_R3(ctx, prj), decided, by="the evaluated walk (R6)")
    ctx.complement("R4", lambda: rule_R4(ctx, prj), decided, by="the evaluated walk (R6)")
    # the who-may-call table names the functions of the reviewed architecture; when they moved, the evaluated entry points decide
    ctx.complement("R5", lambda: rule_R5(ctx, prj), decided, demote=True, by="the evaluated walk (R6)")
