"""C18 - Rendered report, diff and findings show exactly the stored numbers (field / role / constant agreement)."""
from __future__ import annotations

import ast
import copy
import re

from ..core import (AnalysisError, FuncInfo, Project, attr_chain, const_int, const_str, enclosing, expand, guards_of,
                    local_defs, term, unparse)
from ..intdec import Specializer

FIELDS = ["files", "functions", "loc", "hard_to_maintain", "unmaintainable"]
HEADER_FIELD = {"Files": "files", "Functions": "functions", "Lines of Code": "loc", "⚠": "hard_to_maintain",
                "✖": "unmaintainable", "⛌": "unmaintainable", "❌": "unmaintainable"}


# ----------------------------------------------------------------------------
# R1 roles
# ----------------------------------------------------------------------------

def role_of(prj: Project, fi: FuncInfo, e, depth=0) -> str:
    """'current' | 'previous' | '?' for an expression denoting (language / scan) totals or a report."""
    if depth > 6:
        return "?"
    t = unparse(e)
    if isinstance(e, ast.Name):
        if e.id in fi.params():
            low = e.id.lower()
            if "previous" in low or "diff" in low or low.endswith("_prev"):
                return "previous"
            if "current" in low or e.id in ("report", "scan_totals"):
                return "current"
            return "?"
        for v, st in local_defs(fi, e.id):
            if v is not None:
                return role_of(prj, fi, v, depth + 1)
            # loop variable: role of the iterated collection's owner
            if isinstance(st, (ast.For, ast.comprehension)):
                return role_of(prj, fi, st.iter, depth + 1)
        return "?"
    if isinstance(e, ast.Attribute) and isinstance(e.value, ast.Name) and e.value.id == "self" and fi.cls is not None:
        init = fi.cls.methods.get("__init__")
        if init is not None:
            for n in init.walk():
                if isinstance(n, ast.Assign) and unparse(n.targets[0]) == t:
                    return role_of(prj, init, n.value, depth + 1)
        return "?"
    if isinstance(e, ast.Attribute):
        return role_of(prj, fi, e.value, depth + 1)
    if isinstance(e, ast.Call):
        if isinstance(e.func, ast.Attribute):
            return role_of(prj, fi, e.func.value, depth + 1)      # X.language_total(..), X.languages_totals()
        if e.args:
            return role_of(prj, fi, e.args[0], depth + 1)          # ScanTotals(report.codebase.totals)
    if isinstance(e, ast.Subscript):
        return role_of(prj, fi, e.value, depth + 1)
    return "?"


def rule_R1(ctx, prj):
    ctx.rule("R1", "at every construction of LanguageTotalsDelta / ScanTotalsDelta / ScanResultTable / _print_totals the "
                   "first totals argument descends from the current report and the second from the comparison report "
                   "(roles seeded from the *_current / *_previous / diff_report parameter names and propagated through "
                   "attributes, method calls and loop variables)", floor=6)
    sites = []
    for fi in prj.funcs.values():
        if not fi.module.name.startswith("codelimit.common"):
            continue
        for c in fi.calls():
            nm = attr_chain(c.func) or ""
            if nm in ("LanguageTotalsDelta", "ScanTotalsDelta") and len(c.args) == 2:
                sites.append((fi, c, c.args[0], c.args[1], nm))
            elif nm in ("ScanResultTable", "_print_totals") and len(c.args) >= (2 if nm == "ScanResultTable" else 3):
                a = c.args[0] if nm == "ScanResultTable" else c.args[1]
                b = c.args[1] if nm == "ScanResultTable" else c.args[2]
                sites.append((fi, c, a, b, nm))
    if not sites:
        raise AnalysisError("no delta constructions found")
    for fi, c, a, b, nm in sites:
        ra, rb = role_of(prj, fi, a), role_of(prj, fi, b)
        key = f"{fi.local}/{nm}({unparse(a)[:30]}, {unparse(b)[:30]})"
        if ra == "current" and rb == "previous":
            ctx.ok("R1", fi.site(c), f"{key}: current, previous")
        elif "?" in (ra, rb):
            raise AnalysisError(f"{fi.site(c)}: cannot determine the role of the arguments of {unparse(c)[:80]} ({ra}, {rb})")
        else:
            ctx.viol("R1", f"{fi.local}/{nm}-roles", fi.site(c),
                     f"{nm}({unparse(a)}, {unparse(b)}) receives ({ra}, {rb}); required (current, previous): "
                     + ("each language is compared with itself, so per-language deltas never appear" if ra == rb == "current"
                        else "the delta is taken against the wrong report"))
    # presence tests on totals objects must not depend on emptiness
    for cq in ("codelimit.common.ScanTotals:ScanTotals", "codelimit.common.LanguageTotals:LanguageTotals", "codelimit.common.report.Report:Report"):
        ci = prj.cls(cq)
        dunder = [m for m in ("__len__", "__bool__") if m in ci.methods]
        if not dunder:
            ctx.ok("R1", f"{ci.module.rel}:{ci.node.lineno}", f"{ci.name}: no __len__/__bool__, `if previous:` tests presence")
            continue
        hits = []
        for fi in prj.funcs.values():
            for n in fi.walk():
                test = n.test if isinstance(n, (ast.If, ast.IfExp)) else None
                if test is None:
                    continue
                for x in ast.walk(test):
                    parent_is_cmp = False
                    names = {"ScanTotals": ("scan_totals_previous", "self._stp", "_scan_totals_previous"),
                             "LanguageTotals": ("language_totals_previous", "_language_totals_previous"),
                             "Report": ("diff_report",)}[ci.name]
                    if isinstance(x, (ast.Name, ast.Attribute)) and any(unparse(x) == nm or unparse(x).endswith("." + nm.lstrip("self.")) or unparse(x) == nm for nm in names):
                        # bare truthiness use (not `is None` comparison)
                        par = fi.parents.get(x)
                        if not isinstance(par, (ast.Compare, ast.Attribute, ast.Call)):
                            hits.append((fi, n))
        if hits:
            fi, n = hits[0]
            ctx.viol("R1", f"{ci.name}/{dunder[0]}-vs-presence-test", fi.site(n),
                     f"{ci.name} defines {dunder[0]}, so the presence test `{unparse(n.test)[:50]}` is false for a comparison report that is present "
                     f"but empty: no figure is annotated although every one differs ({len(hits)} such tests)")
        else:
            ctx.ok("R1", f"{ci.module.rel}:{ci.node.lineno}", f"{ci.name} defines {dunder} but no bare truthiness presence test remains")


# ----------------------------------------------------------------------------
# R2 delta arithmetic by folding
# ----------------------------------------------------------------------------

def _fold_method(m: FuncInfo, cur_txt: str, prev_txt: str, prev_obj_txt: str, cur: int, prev: int):
    def val(n):
        t = unparse(n)
        if t == cur_txt:
            return cur
        if t == prev_txt:
            return prev
        if t == prev_obj_txt or t == prev_obj_txt.replace("_previous", "_current"):
            return True
        return None
    sp = Specializer(None, valuation=val)
    tree = sp.visit(copy.deepcopy(m.node))
    ast.fix_missing_locations(tree)
    return tree


def _classify_return(tree):
    """('plain'|'annotated'|'?', shown_total, shown_delta)"""
    rets = [s for s in tree.body if isinstance(s, ast.Return)]
    if len(rets) != 1 or any(isinstance(s, (ast.If, ast.For, ast.While, ast.Try)) for s in tree.body):
        return "?", None, None
    v = rets[0].value
    if not isinstance(v, ast.JoinedStr):
        return "?", None, None
    fvs = [x for x in v.values if isinstance(x, ast.FormattedValue)]
    consts = [x.value.value if isinstance(x.value, ast.Constant) else None for x in fvs]
    if len(fvs) == 1:
        return "plain", consts[0], None
    if len(fvs) == 2:
        signed = fvs[1].format_spec is not None and "+" in unparse(fvs[1].format_spec)
        return ("annotated" if signed else "annotated-unsigned"), consts[0], consts[1]
    return "?", None, None


def rule_R2(ctx, prj):
    ctx.rule("R2", "each of the ten delta methods reads, on the current and on the previous object, the field named by the "
                   "method, shows the current value, and annotates it with (current - previous), explicitly signed, exactly "
                   "when the two differ - decided by folding the method for current/previous values in {0,1,3}", floor=10)
    specs = []
    lt = prj.cls("codelimit.common.LanguageTotalsDelta:LanguageTotalsDelta")
    st = prj.cls("codelimit.common.ScanTotalsDelta:ScanTotalsDelta")
    for f in FIELDS:
        specs.append((lt, f, f"self._language_totals_current.{f}", f"self._language_totals_previous.{f}", "self._language_totals_previous"))
    for f in FIELDS:
        specs.append((st, "total_" + f, f"self._scan_totals_current.total_{f}()", f"self._scan_totals_previous.total_{f}()", "self._scan_totals_previous"))
    for ci, mname, cur_t, prev_t, prev_obj in specs:
        m = ci.methods.get(mname)
        if m is None:
            raise AnalysisError(f"{ci.name}.{mname} not found")
        bad = None
        for cur in (0, 1, 3):
            for prev in (0, 1, 3):
                tree = _fold_method(m, cur_t, prev_t, prev_obj, cur, prev)
                kind, tot, delta = _classify_return(tree)
                ctx.obligations += 1
                want = "plain" if cur == prev else "annotated"
                if kind == "?":
                    bad = bad or (cur, prev, f"the method does not reduce to one formatted string when {cur_t.split('.')[-1]} of both objects is known "
                                  f"(it reads another field, or branches on something else)")
                elif kind != want:
                    bad = bad or (cur, prev, f"shows the {'plain' if kind == 'plain' else kind} form; required {want}")
                elif tot != cur:
                    bad = bad or (cur, prev, f"shows {tot} as the figure; required the current value {cur}")
                elif want == "annotated" and delta != cur - prev:
                    bad = bad or (cur, prev, f"annotates with {delta}; required current - previous = {cur - prev}")
                else:
                    ctx.discharged += 1
        key = f"{ci.name}.{mname}"
        if bad:
            ctx.viol("R2", key, m.site(), f"with current={bad[0]}, previous={bad[1]} (language present in both reports): {bad[2]}")
        else:
            ctx.ok("R2", m.site(), f"{key}: 9 value pairs, annotated with current - previous exactly when they differ")


# ----------------------------------------------------------------------------
# R3 column / field agreement, R4 ordering
# ----------------------------------------------------------------------------

def _field_of_expr(e) -> str:
    """which of FIELDS an expression shows (by the last attribute / method name)"""
    if isinstance(e, ast.FormattedValue):
        e = e.value
    if isinstance(e, ast.JoinedStr):
        fv = [x for x in e.values if isinstance(x, ast.FormattedValue)]
        if len(fv) == 1:
            return _field_of_expr(fv[0])
        return "?"
    if isinstance(e, ast.Call) and isinstance(e.func, ast.Attribute):
        nm = e.func.attr
    elif isinstance(e, ast.Attribute):
        nm = e.attr
    else:
        return "?"
    nm = nm[6:] if nm.startswith("total_") else nm
    return nm if nm in FIELDS else ("language" if nm == "language" else "?")


def rule_R3(ctx, prj):
    ctx.rule("R3", "in the text table and in the Markdown tables the cells of every row and of the totals line show, "
                   "position by position, the field named by the column header (Files, Functions, Lines of Code, "
                   "hard-to-maintain, unmaintainable), in the diff and the non-diff branch alike", floor=8)
    # text: ScanResultTable
    init = prj.func("codelimit.common.ScanResultTable:ScanResultTable.__init__")
    pop = prj.func("codelimit.common.ScanResultTable:ScanResultTable._populate")
    groups = {}
    for c in sorted(init.calls(), key=lambda c: c.lineno):
        if isinstance(c.func, ast.Attribute) and c.func.attr == "add_column" and c.args:
            h = const_str(c.args[0])
            if h in HEADER_FIELD and len(c.args) > 1:
                br = tuple(id(x) for x in enclosing(init, c, ast.If)) + tuple(
                    "body" if any(y is c for s in x.body for y in ast.walk(s)) else "else" for x in enclosing(init, c, ast.If))
                groups.setdefault(br, []).append((HEADER_FIELD[h], _field_of_expr(c.args[1]), c))
    if not groups:
        raise AnalysisError("ScanResultTable: no add_column(header, footer) calls found")
    for br, cols in groups.items():
        heads = [h for h, _, _ in cols]
        foots = [f for _, f, _ in cols]
        if heads == FIELDS and foots == FIELDS:
            ctx.ok("R3", init.site(cols[0][2]), f"ScanResultTable columns/footers: {heads}")
        else:
            ctx.viol("R3", "ScanResultTable/columns", init.site(cols[0][2]), f"column headers {heads} carry the totals {foots}; required {FIELDS} for both")
    rows = [c for c in pop.calls() if isinstance(c.func, ast.Attribute) and c.func.attr == "add_row"]
    for c in rows:
        cells = [_field_of_expr(a) for a in c.args]
        if cells == ["language"] + FIELDS:
            ctx.ok("R3", pop.site(c), f"ScanResultTable row: {cells[1:]}")
        else:
            ctx.viol("R3", f"ScanResultTable._populate/row@{'diff' if 'ltd' in unparse(c) else 'plain'}", pop.site(c), f"row cells show {cells}; required language + {FIELDS}")
    if len(rows) < 2:
        raise AnalysisError("ScanResultTable._populate: expected a diff and a plain row")
    # markdown
    pt = prj.func("codelimit.common.report.format_markdown:_print_totals")
    prints = [c for c in pt.calls() if isinstance(c.func, ast.Attribute) and c.func.attr == "print"]
    header = None
    for c in prints:
        s = const_str(c.args[0]) if c.args else None
        if s and "**Language**" in s:
            header = [x.strip().strip("*") for x in s.strip().strip("|").split("|")]
    if header is None:
        raise AnalysisError("format_markdown._print_totals: table header not found")
    hf = [HEADER_FIELD.get(h, "?") for h in header[1:]]
    if hf != FIELDS:
        ctx.viol("R3", "format_markdown/header", pt.site(), f"Markdown header columns are {header[1:]} -> {hf}; required {FIELDS}")
    n_rows = 0
    for c in prints:
        fv = []
        for a in c.args:
            if isinstance(a, ast.JoinedStr):
                fv += [x for x in a.values if isinstance(x, ast.FormattedValue)]
            elif isinstance(a, ast.Attribute):
                fv.append(a)
        cells = [_field_of_expr(x) for x in fv]
        cells = [x for x in cells if x != "language"]
        if len(cells) >= 3:
            n_rows += 1
            if cells == FIELDS:
                ctx.ok("R3", pt.site(c), f"Markdown row: {cells}")
            else:
                ctx.viol("R3", f"format_markdown._print_totals/row{n_rows}", pt.site(c), f"row cells show {cells}; required {FIELDS} (header order)")
    if n_rows < 4:
        raise AnalysisError(f"format_markdown._print_totals: only {n_rows} row constructions recognised (4 confirmed by reading)")


def rule_R4(ctx, prj):
    ctx.rule("R4", "languages are listed by lines of code, largest first: ScanTotals.languages_totals() sorts by .loc "
                   "descending and both renderers iterate it", floor=3)
    lt = prj.func("codelimit.common.ScanTotals:ScanTotals.languages_totals")
    rets = [r for r in lt.walk() if isinstance(r, ast.Return) and r.value is not None]
    e = expand(lt, rets[0].value) if rets else None
    ok = False
    if isinstance(e, ast.Call) and attr_chain(e.func) == "sorted":
        kw = {k.arg: k.value for k in e.keywords}
        key, rev = kw.get("key"), kw.get("reverse")
        if isinstance(key, ast.Lambda):
            body = key.body
            neg = isinstance(body, ast.UnaryOp) and isinstance(body.op, ast.USub)
            body = body.operand if neg else body
            isloc = isinstance(body, ast.Attribute) and body.attr == "loc"
            r = isinstance(rev, ast.Constant) and rev.value is True
            ok = isloc and (r != neg)
    if ok:
        ctx.ok("R4", lt.site(), "ScanTotals.languages_totals(): sorted by .loc, descending")
    else:
        ctx.viol("R4", "ScanTotals.languages_totals/order", lt.site(), f"languages are returned as {unparse(e)[:90] if e is not None else '?'}; required sorted by lines of code, largest first")
    for q in ("codelimit.common.ScanResultTable:ScanResultTable._populate", "codelimit.common.report.format_markdown:_print_totals"):
        f = prj.func(q)
        loops = [n for n in f.walk() if isinstance(n, ast.For) and unparse(n.iter).endswith(".languages_totals()")]
        if loops and role_of(prj, f, loops[0].iter) == "current":
            ctx.ok("R4", f.site(loops[0]), f"{f.local}: iterates the current report's languages_totals()")
        else:
            ctx.viol("R4", f"{f.local}/iteration", f.site(), f"{f.local} does not iterate the current report's languages_totals() (order or set of languages differs)")


# ----------------------------------------------------------------------------
# R5 findings cut-off
# ----------------------------------------------------------------------------

def _resolve_straight(tree, name: str):
    """last straight-line definition of `name` at the top level of a folded function body"""
    val = None
    for st in tree.body:
        if isinstance(st, ast.Assign) and isinstance(st.targets[0], ast.Name) and st.targets[0].id == name:
            val = st.value
    return val


def rule_R5(ctx, prj):
    ctx.rule("R5", "both print_findings take report.all_report_units_sorted_by_length_asc(30), show all N findings when "
                   "full or N <= 10 and otherwise exactly the first 10 - on every rendering branch - and print 'N - 10 more "
                   "rows' under exactly that condition (folded for N in 9..12, full in {True, False}, with/without repository)", floor=2)
    for q in ("codelimit.common.report.format_text:print_findings", "codelimit.common.report.format_markdown:print_findings"):
        fi = prj.func(q)
        src = [c for c in fi.calls() if isinstance(c.func, ast.Attribute) and c.func.attr == "all_report_units_sorted_by_length_asc"]
        if len(src) != 1:
            raise AnalysisError(f"{fi.disp}: findings list source not found")
        bad = None
        rows = 0
        for full in (False, True):
            for N in (9, 10, 11, 12):
                for repo in (True, False):
                    def val(n, full=full, N=N, repo=repo):
                        t = unparse(n)
                        if t == "full":
                            return full
                        if t in ("len(functions)", "total_findings"):
                            return N if t == "len(functions)" else None
                        if t == "report.repository":
                            return repo
                        return None
                    sp = Specializer(None, valuation=val)
                    tree = sp.visit(copy.deepcopy(fi.node))
                    ast.fix_missing_locations(tree)
                    if any(isinstance(s, ast.If) for s in tree.body):
                        raise AnalysisError(f"{fi.disp}: an undecided condition remains after folding (full, N, repository): "
                                            f"{[unparse(s.test) for s in tree.body if isinstance(s, ast.If)][:2]}")
                    # what is rendered: the list handed to the row printer(s) / iterated
                    shown = []
                    env = {}
                    more = None

                    def subst(e):
                        class S(ast.NodeTransformer):
                            def visit_Name(self, n):
                                return copy.deepcopy(env[n.id]) if isinstance(n.ctx, ast.Load) and n.id in env else n
                        return S().visit(copy.deepcopy(e))
                    for st in tree.body:
                        if isinstance(st, ast.Assign) and isinstance(st.targets[0], ast.Name):
                            env[st.targets[0].id] = subst(st.value)
                            continue
                        for c in ast.walk(st):
                            if isinstance(c, ast.Call) and (attr_chain(c.func) or "").startswith("_print_findings_") and c.args:
                                shown.append(subst(c.args[0]))
                            if isinstance(c, ast.Call) and isinstance(c.func, ast.Attribute) and c.func.attr == "print" and c.args:
                                t = unparse(c.args[0])
                                if "more rows" in t:
                                    fv = [x for x in ast.walk(c.args[0]) if isinstance(x, ast.FormattedValue)]
                                    more = fv[0].value.value if fv and isinstance(fv[0].value, ast.Constant) else "?"
                        if isinstance(st, ast.For):
                            shown.append(subst(st.iter))

                    def state(e, depth=0):
                        if isinstance(e, ast.Subscript) and isinstance(e.slice, ast.Slice) and e.slice.lower is None and e.slice.step is None:
                            k = const_int(e.slice.upper) if e.slice.upper is not None else None
                            inner = state(e.value, depth + 1)
                            return ("first", k) if inner == ("all", None) else ("?", None)
                        if isinstance(e, ast.Call) and isinstance(e.func, ast.Attribute) and e.func.attr == "all_report_units_sorted_by_length_asc":
                            return ("all", None)
                        return ("?", None)
                    want_trunc = (not full) and N > 10
                    rows += 1
                    ctx.obligations += 1
                    if not shown:
                        bad = bad or (full, N, repo, "nothing is rendered")
                        continue
                    for e in shown:
                        stt = state(e)
                        if want_trunc and stt != ("first", 10):
                            bad = bad or (full, N, repo, f"the rendered list is {unparse(e)} = {stt}; required the first 10 findings")
                        if not want_trunc and stt != ("all", None):
                            bad = bad or (full, N, repo, f"the rendered list is {unparse(e)} = {stt}; required all {N} findings")
                    if want_trunc and more != N - 10:
                        bad = bad or (full, N, repo, f"the omitted-rows message shows {more}; required {N - 10}")
                    if not want_trunc and more is not None:
                        bad = bad or (full, N, repo, "an omitted-rows message is printed although nothing is omitted")
                    if not bad:
                        ctx.discharged += 1
        key = f"{fi.module.name.split('.')[-1]}.print_findings"
        if bad:
            ctx.viol("R5", key, fi.site(), f"with full={bad[0]}, {bad[1]} findings, repository={'present' if bad[2] else 'absent'}: {bad[3]}")
        else:
            ctx.instances.setdefault("R5", []).extend(dict(site=fi.site(), what=f"{key} row {i}", verdict="ok") for i in range(rows))
            ctx.lines.append(f"OK rule=R5 site={fi.site()} construct={key} rows={rows}")
        thr = const_int(src[0].args[0]) if src[0].args else None
        if thr != 30:
            ctx.viol("R5", key + "/threshold", fi.site(src[0]), f"findings are taken above {thr}; required 30 (functions longer than 30 lines)")


def rule_R6_evaluated(ctx, prj) -> bool:
    """overview and findings renderers evaluated on tagged reports; False when they leave the interpreted fragment"""
    from ..absint import PyRaise, Unknown
    from .. import render_eval as RE
    ctx.rule("R6", "renderers evaluated on tagged reports (every stored figure distinct; languages present in both reports, "
                   "only in the current and only in the previous one; with, without and with an empty comparison report): "
                   "rows are the current report's languages by lines of code, each cell shows the figure named by its column "
                   "header, figures of a language present in both reports and totals are annotated with current - previous "
                   "(signed) exactly when they differ, text and Markdown agree cell by cell; findings: threshold 30, all "
                   "when full or at most 10, else the first 10 and the exact number of omitted rows (N in 9..12, with and "
                   "without repository)", floor=10)
    lab = RE.Lab(prj)
    srt = prj.func("codelimit.common.ScanResultTable:ScanResultTable.__init__")
    mdt = prj.func("codelimit.common.report.format_markdown:_print_totals") if prj.maybe_func("codelimit.common.report.format_markdown:_print_totals") else prj.func("codelimit.common.report.format_markdown:print_totals")
    F = RE.FIELDS
    try:
        scen = [("comparison report", RE.CUR, RE.PREV, False), ("no comparison report", RE.CUR, None, False), ("empty comparison report", RE.CUR, {}, False),
                ("empty comparison report, after a scan of other files in the same process", RE.CUR, {}, True),
                ("comparison report, after a scan of other files in the same process", RE.CUR, RE.PREV, True)]
        for name, cur, prev, warm in scen:
            th, tf, tr = RE.text_table(lab, cur, prev, warm)
            mh, mtot, mr = RE.markdown_table(lab, cur, prev, warm)
            order = sorted(cur, key=lambda l: -cur[l]["loc"])
            sums_c = {f: sum(cur[l][f] for l in cur) for f in F}
            sums_p = {f: sum(prev[l][f] for l in prev) for f in F} if prev is not None else None
            for fmt, site, headers, totals, rows in (("text", srt.site(), th[1:], tf[1:] if tf else None, tr),
                                                    ("Markdown", mdt.site(), (mh or [None])[1:], (mtot or [None])[1:] if mtot else None, mr)):
                key0 = "ScanResultTable" if fmt == "text" else "format_markdown"
                hf = [RE.HEADER_FIELD.get(h, "?") for h in headers]
                if hf != F:
                    ctx.viol("R6", f"{key0}/columns", site, f"{fmt}, {name}: column headers {headers} stand for {hf}; required {F}")
                    continue
                langs = [r[0].strip("* ").strip() for r in rows]
                if langs != order:
                    ctx.viol("R6", f"{key0}/languages_totals/order", site, f"{fmt}, {name}: languages are listed as {langs}; required by lines of code, largest first: {order}")
                    continue
                ok = True
                for r in rows:
                    lang = r[0].strip("* ").strip()
                    cells = [c.strip() for c in r[1:]]
                    both = prev is not None and lang in prev
                    for f, c in zip(F, cells):
                        want = RE.cell(cur[lang][f], prev[lang][f] if both else None)
                        base = re.match(r"^-?\d+", c)
                        if both or prev is None:
                            good = c == want
                        else:
                            good = base is not None and base.group() == str(cur[lang][f])
                        if not good and ok:
                            ok = False
                            role = "LanguageTotalsDelta" if prev is not None else key0
                            ctx.viol("R6", f"{role}.{f}/{key0}._populate/row/roles", site,
                                     f"{fmt}, {name}: the {f} cell of {lang} shows '{c}'; required '{want}' (current {cur[lang][f]}"
                                     + (f", previous {prev[lang][f]}" if both else "") + ")")
                    if len(cells) != len(F) and ok:
                        ok = False
                        ctx.viol("R6", f"{key0}._populate/row", site, f"{fmt}, {name}: the row of {lang} has {len(cells)} figures; required {len(F)}")
                if not ok:
                    continue
                if totals is not None and len(cur) > 1:
                    tcells = [str(c).strip() for c in totals]
                    want = [RE.cell(sums_c[f], sums_p[f] if sums_p is not None else None) for f in F]
                    if tcells != want:
                        i = next((i for i, (a, b) in enumerate(zip(tcells, want)) if a != b), 0)
                        ctx.viol("R6", f"ScanTotalsDelta.total_{F[i]}/{key0}/columns", site,
                                 f"{fmt}, {name}: the totals show {tcells}; required {want} (current totals {sums_c}"
                                 + (f", previous totals {sums_p}" if sums_p is not None else "") + ")")
                        continue
                elif len(cur) > 1:
                    ctx.viol("R6", f"{key0}/totals-missing", site, f"{fmt}, {name}: no totals line for {len(cur)} languages")
                    continue
                ctx.ok("R6", site, f"{fmt}, {name}: {len(rows)} rows x {len(F)} figures and the totals as specified")
            if [[c.strip() for c in r] for r in tr] != [[c.strip("* ").strip() if i == 0 else c.strip() for i, c in enumerate(r)] for r in mr]:
                ctx.viol("R6", "renderers-disagree", srt.site(), f"{name}: text rows {tr} and Markdown rows {mr} differ")
        for q in ("codelimit.common.report.format_text:print_findings", "codelimit.common.report.format_markdown:print_findings"):
            fi = prj.func(q)
            key = f"{fi.module.name.split('.')[-1]}.print_findings"
            bad = None
            rows = 0
            for full in (False, True):
                for n in (9, 10, 11, 12):
                    for repo in (False, True):
                        asked, shown, more = RE.findings(lab, q, n, full, repo)
                        rows += 1
                        ctx.obligations += 1
                        trunc = (not full) and n > 10
                        want_shown = list(range(10)) if trunc else list(range(n))
                        case = f"with full={full}, {n} findings, repository={'present' if repo else 'absent'}"
                        if asked != [30]:
                            bad = bad or (case, f"findings are taken above {asked}; required 30 (functions longer than 30 lines)", "/threshold")
                        elif shown != want_shown:
                            bad = bad or (case, f"the findings shown are {shown}; required {'the first 10' if trunc else 'all ' + str(n)} in order", "")
                        elif trunc and more != [n - 10]:
                            bad = bad or (case, f"the omitted-rows message shows {more}; required {n - 10}", "")
                        elif not trunc and more:
                            bad = bad or (case, "an omitted-rows message is printed although nothing is omitted", "")
                        else:
                            ctx.discharged += 1
            if not bad:
                # the same report object listed twice: a short listing first must not change what the full listing shows
                for repo in (False, True):
                    try:
                        again = RE.findings_again(lab, q, repo)
                    except (Unknown, PyRaise) as e:
                        ctx.info(f"R6: {key}: a second listing of the same report not evaluable ({e}); not judged")
                        continue
                    if again != list(range(12)):
                        bad = (f"a report with 12 findings listed with full=False and then, the same report object, with full=True, repository={'present' if repo else 'absent'}",
                               f"the second listing shows {again}; required all 12: the first listing changed what the report hands out", "/relisted")
                        break
            if bad:
                ctx.viol("R6", key + bad[2], fi.site(), f"{bad[0]}: {bad[1]}")
            else:
                ctx.instances.setdefault("R6", []).extend(dict(site=fi.site(), what=f"{key} row {i}", verdict="ok") for i in range(rows))
                ctx.lines.append(f"OK rule=R6 site={fi.site()} construct={key} rows={rows}")
    except (Unknown, PyRaise) as e:
        ctx.info(f"renderers not evaluable ({type(e).__name__}: {e}); structural rules decide")
        ctx.rule("R6", "renderers not evaluable by the interpreter: structural rules R1-R5 decide", floor=0)
        ctx.violations[:] = [v for v in ctx.violations if v.rule != "R6"]
        return False
    return True


def run(ctx, prj: Project):
    ctx.explanation = (
        "Field / role / constant agreement of the renderers decided statically: provenance roles (current vs previous) "
        "at every delta construction; each of the ten delta methods folded for 9 value pairs; column headers vs cells; "
        "ordering; findings truncation folded over (full, N in 9..12, repository present/absent) with the rendered list "
        "resolved by def-use. Rich's layout and locale formatting of numbers are run-time and not decided.")
    ctx.not_decided = ["the rendered text itself (Rich layout, ':n' locale formatting)"]
    ctx.trust("CPython ast", "parameter names *_current / *_previous / diff_report state the intended role")
    from .c06 import rule_no_state_left
    FT, FM = "codelimit.common.report.format_text", "codelimit.common.report.format_markdown"
    rule_no_state_left(ctx, prj, "R7", [f"{FT}:print_totals", f"{FT}:print_findings", f"{FM}:print_totals", f"{FM}:print_findings",
                                        "codelimit.commands.report:report_command", "codelimit.commands.findings:findings_command"],
                       "the overview and findings renderers (text and Markdown, and the report / findings commands)")
    if rule_R6_evaluated(ctx, prj):
        # decided by evaluation; what evaluation does not show is kept from the structural rules: presence tests that
        # depend on emptiness (part of R1) are covered by the 'empty comparison report' scenario
        return
    rule_R1(ctx, prj)
    rule_R2(ctx, prj)
    rule_R3(ctx, prj)
    rule_R4(ctx, prj)
    rule_R5(ctx, prj)
