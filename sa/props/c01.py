"""C01 - Exact function discovery, span and length on canonical programs (three structural necessary conditions)."""
from __future__ import annotations

import ast

from ..core import (AnalysisError, FuncInfo, Project, attr_chain, const_int, enclosing, expand, guards_of, local_defs,
                    term, unparse, with_helpers)
from . import c04

SC = "codelimit.common.Scanner"
SCU = "codelimit.common.scope.scope_utils"


def rule_R2(ctx, prj):
    ctx.rule("R2", "TokenRange ends are exclusive; in _scope_tokens the running index leaves a nested function's range when "
                   "index >= end and is inside it from start on (index < start keeps the parent's token): the half-open "
                   "comparisons, so the parent token that directly follows a nested function is counted", floor=4)
    fi = prj.func(f"{SCU}:_scope_tokens")
    # children ranges: TokenRange(child.header.token_range.start, child.block.end)
    ctors = [c for c in fi.calls() if attr_chain(c.func) == "TokenRange" and len(c.args) == 2]
    for c in ctors:
        a, b = unparse(c.args[0]), unparse(c.args[1])
        if a.endswith(".header.token_range.start") and b.endswith(".block.end") and a.split(".")[0] == b.split(".")[0]:
            ctx.ok("R2", fi.site(c), f"_scope_tokens: child range = [{a}, {b})")
        else:
            ctx.viol("R2", "_scope_tokens/child-range", fi.site(c), f"a nested function's range is TokenRange({a}, {b}); required (child.header.token_range.start, child.block.end)")
    if not ctors:
        raise AnalysisError("_scope_tokens: construction of the children's ranges not found")
    loops = [l for l in fi.walk() if isinstance(l, ast.For) and isinstance(l.iter, ast.Call) and attr_chain(l.iter.func) == "range"]
    if len(loops) != 1:
        raise AnalysisError(f"_scope_tokens: expected one index loop, found {len(loops)}")
    lp = loops[0]
    idx = unparse(lp.target)
    ra = [unparse(a) for a in lp.iter.args]
    if len(ra) == 2 and ra[0].endswith(".header.token_range.start") and ra[1].endswith(".block.end"):
        ctx.ok("R2", fi.site(lp), f"_scope_tokens: index runs over [{ra[0]}, {ra[1]})")
    else:
        ctx.viol("R2", "_scope_tokens/index-range", fi.site(lp), f"the index runs over range({', '.join(ra)}); required range(scope.header.token_range.start, scope.block.end)")
    seen_end = seen_start = False
    for cmpn in [c for c in ast.walk(lp) if isinstance(c, ast.Compare) and len(c.ops) == 1]:
        l, r = unparse(cmpn.left), unparse(cmpn.comparators[0])
        op = type(cmpn.ops[0])
        flip = {ast.Lt: ast.Gt, ast.Gt: ast.Lt, ast.LtE: ast.GtE, ast.GtE: ast.LtE}
        if r == idx and op in flip:
            l, r, op = r, l, flip[op]
        if l != idx:
            continue
        if r.endswith(".end"):
            seen_end = True
            in_pop = any(isinstance(w, ast.While) and any(x is cmpn for x in ast.walk(w.test)) for w in ast.walk(lp))
            if op is ast.GtE:
                ctx.ok("R2", fi.site(cmpn), f"_scope_tokens: child range left when {idx} >= {r} (exclusive end)")
            elif op is ast.Gt:
                ctx.viol("R2", "_scope_tokens/leave-child", fi.site(cmpn),
                         f"the finished child range is only dropped when {idx} > {r}; the end is exclusive, so the token AT {r} belongs to the parent and is "
                         f"skipped: a nested function directly followed by a one-token line (e.g. the closing brace) makes the parent one line short")
            elif op is ast.Lt:
                ctx.ok("R2", fi.site(cmpn), f"_scope_tokens: inside child while {idx} < {r}")
            elif op is ast.LtE:
                ctx.viol("R2", "_scope_tokens/inside-child", fi.site(cmpn), f"{idx} <= {r} treats the first token after the nested function as part of it")
        elif r.endswith(".start"):
            seen_start = True
            if op is ast.Lt:
                ctx.ok("R2", fi.site(cmpn), f"_scope_tokens: parent token kept when {idx} < {r}")
            elif op is ast.LtE:
                ctx.viol("R2", "_scope_tokens/before-child", fi.site(cmpn), f"{idx} <= {r} counts the nested function's first token for the parent as well")
            elif op is ast.GtE:
                ctx.ok("R2", fi.site(cmpn), f"_scope_tokens: inside child from {idx} >= {r}")
            elif op is ast.Gt:
                ctx.viol("R2", "_scope_tokens/before-child", fi.site(cmpn), f"{idx} > {r} counts the nested function's first token for the parent as well")
    if not (seen_end and seen_start):
        raise AnalysisError("_scope_tokens: comparisons of the index with the child range's start/end not recognised")


def rule_R3(ctx, prj, rid="R3"):
    ctx.rule(rid, "a measurement's span starts at the location of the token at header.token_range.start and ends at "
                  "(line of the token at block.end - 1, its column + len(its text)) - both read from the same "
                  "comment-free list; its name is the header's name; its length is count_lines of that scope", floor=4)
    fi0 = prj.func(f"{SC}:scan_file")
    found = [(f, c) for f in with_helpers(prj, fi0) for c in f.calls() if attr_chain(c.func) == "Measurement"]
    if len(found) != 1:
        raise AnalysisError(f"scan_file: expected one Measurement(...) construction, found {len(found)}")
    fi, c = found[0]
    args = list(c.args) + [None] * 4
    kw = {k.arg: k.value for k in c.keywords}
    name, start, end, length = (args[0] or kw.get("unit_name"), args[1] or kw.get("start"), args[2] or kw.get("end"), args[3] or kw.get("value"))
    if any(x is None for x in (name, start, end, length)):
        raise AnalysisError(f"{fi.site(c)}: arguments of Measurement(...) not understood")
    import re
    loops = enclosing(fi, c, (ast.For, ast.ListComp, ast.GeneratorExp))
    sv = None
    for lp in loops:
        tgt = lp.target if isinstance(lp, ast.For) else lp.generators[0].target
        if isinstance(tgt, ast.Name):
            sv = tgt.id
            break
    if sv is None:
        mm = re.search(r"(\w+)\.header\b", unparse(expand(fi, start)) + " " + unparse(expand(fi, name)))
        sv = mm.group(1) if mm else (fi.params()[0] if fi.params() else "scope")
    L = None
    st = expand(fi, start)
    t_start = unparse(st)
    m = re.fullmatch(r"(.+)\[" + re.escape(sv) + r"\.header\.token_range\.start\]\.location", t_start)
    if m:
        L = m.group(1)
        ctx.ok(rid, fi.site(c), f"span start = {t_start}")
    else:
        ctx.viol(rid, "scan_file/span-start", fi.site(c), f"span start is {t_start[:80]}; required <code tokens>[{sv}.header.token_range.start].location (the header's first token)")
    en = expand(fi, end)
    ok = False
    if isinstance(en, ast.Call) and attr_chain(en.func) == "Location" and len(en.args) == 2:
        line_t, col_t = unparse(en.args[0]), unparse(en.args[1])
        last = f"{L or 'code_tokens'}[{sv}.block.end - 1]"
        want_line = f"{last}.location.line"
        want_cols = {f"{last}.location.column + len({last}.value)", f"len({last}.value) + {last}.location.column"}
        if line_t == want_line and col_t in want_cols:
            ok = True
            ctx.ok(rid, fi.site(c), f"span end = ({want_line}, column + len(value)) of the last body token")
        else:
            what = []
            if line_t != want_line:
                what.append(f"line is {line_t}")
            if col_t not in want_cols:
                what.append(f"column is {col_t}")
            ctx.viol(rid, "scan_file/span-end", fi.site(c), f"span end: {'; '.join(what)}; required line of {last} and its column + len(its text) "
                     f"(block.end is exclusive: the last body token is at block.end - 1)")
    else:
        ctx.viol(rid, "scan_file/span-end", fi.site(c), f"span end is {unparse(en)[:80]}, not a Location built from the last body token")
    nm = term(fi, name)
    if nm in (f"{sv}.header.name()", f"{sv}.header.name_token.value"):
        ctx.ok(rid, fi.site(c), f"name = {nm}")
    else:
        ctx.viol(rid, "scan_file/name", fi.site(c), f"the reported name is {nm}; required the header's name token text")
    ln = expand(fi, length)
    if isinstance(ln, ast.Call) and prj.resolve_callee_name(fi, ln).endswith(":count_lines") and unparse(ln.args[0]) == sv:
        ctx.ok(rid, fi.site(c), f"length = count_lines({sv}, …)")
    else:
        ctx.viol(rid, "scan_file/length", fi.site(c), f"the reported length is {unparse(ln)[:60]}; required count_lines({sv}, code tokens)")


def rule_R4(ctx, prj):
    ctx.rule("R4", "block discovery boundary conditions (each a necessary condition on canonical programs): a brace block's "
                   "range ends one past its closing brace; balanced matching pushes on the opening and pops on the closing "
                   "symbol and pairs (popped index, current index); a Python suite consists of the following lines whose first "
                   "token is indented strictly deeper than the header's first token, and its range ends one past its last "
                   "token (each violating form was confirmed against the real code to mis-measure a canonical program)", floor=6)
    gb = prj.func(f"{SCU}:get_blocks")
    ctors = [c for c in gb.calls() if attr_chain(c.func) == "TokenRange" and len(c.args) == 2]
    if ctors:
        a, b = unparse(ctors[0].args[0]), unparse(ctors[0].args[1]).replace(" ", "")
        if b.endswith("[1]+1") and a.endswith("[0]"):
            ctx.ok("R4", gb.site(ctors[0]), f"get_blocks: TokenRange({a}, {unparse(ctors[0].args[1])}) - exclusive end one past the closing symbol")
        elif b.endswith("[1]") or b.endswith("[1]+2") or b.endswith("[1]-1"):
            ctx.viol("R4", "get_blocks/exclusive-end", gb.site(ctors[0]), f"a block's range is TokenRange({a}, {unparse(ctors[0].args[1])}); required (open index, close index + 1): "
                     f"the closing brace {'falls outside the block (span ends one token early)' if not b.endswith('+2') else 'is followed by a foreign token inside the block'}")
        else:
            ctx.info(f"get_blocks: range construction {unparse(ctors[0])} not judged")
    else:
        ctx.info("get_blocks: no TokenRange construction recognised (not judged)")
    bal = prj.func("codelimit.common.token_utils:get_balanced_symbol_token_indices")
    ps = bal.params()
    start_p, end_p = ps[1], ps[2]
    ifs = [n for n in bal.walk() if isinstance(n, ast.If) and "is_symbol(" in unparse(n.test)]
    judged = False
    for n in ifs:
        t = unparse(n.test)
        body = " ".join(unparse(x) for x in n.body)
        if f"is_symbol({start_p})" in t:
            judged = True
            if ".append(" in body and ".pop(" not in body:
                ctx.ok("R4", bal.site(n), f"balanced matching: opening symbol pushes its index")
            else:
                ctx.viol("R4", "get_balanced_symbol_token_indices/open", bal.site(n), f"on the opening symbol the code does `{body[:60]}`; required: push the index")
        elif f"is_symbol({end_p})" in t:
            judged = True
            if ".pop(" in body:
                # the recorded pair
                tups = [x for x in ast.walk(n) if isinstance(x, ast.Tuple) and len(x.elts) == 2 and isinstance(x.ctx, ast.Load)]
                loopidx = None
                for lp in [l for l in bal.walk() if isinstance(l, ast.For)]:
                    if isinstance(lp.target, ast.Tuple):
                        loopidx = unparse(lp.target.elts[0])
                good = any(unparse(tp.elts[1]) == loopidx and unparse(tp.elts[0]) != loopidx for tp in tups)
                if good:
                    ctx.ok("R4", bal.site(n), "balanced matching: closing symbol pops and records (opening index, closing index)")
                else:
                    ctx.viol("R4", "get_balanced_symbol_token_indices/pair", bal.site(n), f"the recorded pair is {[unparse(tp) for tp in tups][:2]}; required (popped opening index, current index)")
            else:
                ctx.viol("R4", "get_balanced_symbol_token_indices/close", bal.site(n), f"on the closing symbol the code does `{body[:60]}`; required: pop the matching opening index")
    if not judged:
        ctx.info("get_balanced_symbol_token_indices: shape not recognised (not judged)")
    # nested extraction flag: result appended when extract_nested or the stack is empty
    conds = [n for n in bal.walk() if isinstance(n, ast.If) and "extract_nested" in unparse(n.test)]
    for n in conds:
        t = unparse(n.test).replace(" ", "")
        if t in (f"extract_nestedorlen(block_starts)==0", "extract_nestedornotblock_starts"):
            ctx.ok("R4", bal.site(n), "balanced matching: inner pairs recorded iff extract_nested, outermost always")
        else:
            ctx.viol("R4", "get_balanced_symbol_token_indices/nesting-flag", bal.site(n), f"a pair is recorded when `{unparse(n.test)}`; required `extract_nested or <stack empty>`")
    # Python suites
    py = prj.maybe_func("codelimit.languages.Python:Python.extract_blocks")
    if py is not None:
        for cmpn in [c for c in py.walk() if isinstance(c, ast.Compare) and len(c.ops) == 1]:
            l, r = unparse(cmpn.left), unparse(cmpn.comparators[0])
            op = type(cmpn.ops[0])
            if {l, r} == {"line_indentation", "header_indentation"}:
                strict_deeper = (l == "line_indentation" and op is ast.Gt) or (l == "header_indentation" and op is ast.Lt)
                if strict_deeper:
                    ctx.ok("R4", py.site(cmpn), "Python suites: a line belongs to the body iff its indentation is strictly deeper than the header's")
                elif op in (ast.GtE, ast.LtE):
                    ctx.viol("R4", "Python.extract_blocks/indentation", py.site(cmpn), f"`{unparse(cmpn)}`: a line at the SAME indentation as the header (the next sibling "
                             f"function, or code after the function) is swallowed into the body")
                else:
                    ctx.viol("R4", "Python.extract_blocks/indentation", py.site(cmpn), f"`{unparse(cmpn)}` does not select the lines indented deeper than the header")
            if {l, r} == {"line_nr", "header_line_nr"}:
                stop = (l == "line_nr" and op is ast.LtE) or (l == "header_line_nr" and op is ast.GtE)
                if stop:
                    ctx.ok("R4", py.site(cmpn), "Python suites: the scan stops at the header's own line (line_nr <= header_line_nr)")
                elif (l == "line_nr" and op is ast.Lt) or (l == "header_line_nr" and op is ast.Gt):
                    ctx.viol("R4", "Python.extract_blocks/header-line", py.site(cmpn), f"`{unparse(cmpn)}`: the header's own line is examined as a candidate body line; it is not indented deeper than itself, which resets the suite collected so far - the function loses its body and is not reported")
        ends = [n for n in py.walk() if isinstance(n, ast.Assign) and unparse(n.targets[0]) == "end"]
        for n in ends:
            t = unparse(n.value).replace(" ", "")
            if t.endswith("[-1])+1"):
                ctx.ok("R4", py.site(n), "Python suites: range ends one past the suite's last token")
            elif t.endswith("[-1])"):
                ctx.viol("R4", "Python.extract_blocks/exclusive-end", py.site(n), f"end = {unparse(n.value)}: the suite's last token falls outside the (exclusive) range")


def run(ctx, prj: Project):
    ctx.explanation = (
        "Three structural necessary conditions of the span and length clauses: (R1) every consumer of scope indices works "
        "on the same comment-free list filter_tokens(raw); (R2) the comparisons that exclude nested functions from a "
        "parent's tokens are the half-open ones for exclusive range ends; (R3) the Measurement is built from the header's "
        "first token, the last body token (block.end - 1) plus its text length, the header's name and count_lines. That the "
        "header patterns, block discovery, nearest-block pairing and folding find exactly the functions of a canonical "
        "grammar is algorithmic correctness and is NOT decided (e.g. async def, three-level nesting, brace groups in "
        "parameter lists are invisible to this family).")
    ctx.not_decided = ["each named function is reported exactly once and nothing else is (joint behaviour of find_all, _get_nearest_block, "
                       "_find_scope_blocks_indices, fold_scopes and the Python indentation scan on all token sequences)"]
    ctx.trust("CPython ast", "TokenRange ends are exclusive (established from get_blocks: TokenRange(bt[0], bt[1] + 1), and tokens[start:end])")
    c04.rule_R1(ctx, prj, rid="R1")
    rule_R2(ctx, prj)
    rule_R3(ctx, prj)
    rule_R4(ctx, prj)
