"""C01 - Exact function discovery, span and length on canonical programs (three structural necessary conditions)."""
from __future__ import annotations

import ast

from ..core import (AnalysisError, FuncInfo, Project, atoms_at, attr_chain, const_int, enclosing, expand, guards_of, local_defs,
                    term, unparse, with_helpers)
from . import c04

SC = "codelimit.common.Scanner"
SCU = "codelimit.common.scope.scope_utils"


def rule_R2(ctx, prj):
    ctx.rule("R2", "TokenRange ends are exclusive; in _scope_tokens the running index leaves a nested function's range when "
                   "index >= end and is inside it from start on (index < start keeps the parent's token): the half-open "
                   "comparisons, so the parent token that directly follows a nested function is counted", floor=4)
    fi = prj.func(f"{SCU}:_scope_tokens")
    # children ranges: TokenRange(child.header.token_range.start, child.block.end)
    ctors = [c for c in fi.calls() if attr_chain(c.func) == "TokenRange" and len(c.args) == 2]
    for c in ctors:
        a, b = unparse(c.args[0]), unparse(c.args[1])
        if a.endswith(".header.token_range.start") and b.endswith(".block.end") and a.split(".")[0] == b.split(".")[0]:
            ctx.ok("R2", fi.site(c), f"_scope_tokens: child range = [{a}, {b})")
        else:
            ctx.viol("R2", "_scope_tokens/child-range", fi.site(c), f"a nested function's range is TokenRange({a}, {b}); required (child.header.token_range.start, child.block.end)")
    if not ctors:
        raise AnalysisError("_scope_tokens: construction of the children's ranges not found")
    loops = [l for l in fi.walk() if isinstance(l, ast.For) and isinstance(l.iter, ast.Call) and attr_chain(l.iter.func) == "range"]
    if len(loops) != 1:
        raise AnalysisError(f"_scope_tokens: expected one index loop, found {len(loops)}")
    lp = loops[0]
    idx = unparse(lp.target)
    ra = [unparse(a) for a in lp.iter.args]
    if len(ra) == 2 and ra[0].endswith(".header.token_range.start") and ra[1].endswith(".block.end"):
        ctx.ok("R2", fi.site(lp), f"_scope_tokens: index runs over [{ra[0]}, {ra[1]})")
    else:
        ctx.viol("R2", "_scope_tokens/index-range", fi.site(lp), f"the index runs over range({', '.join(ra)}); required range(scope.header.token_range.start, scope.block.end)")
    seen_end = seen_start = False
    for cmpn in [c for c in ast.walk(lp) if isinstance(c, ast.Compare) and len(c.ops) == 1]:
        l, r = unparse(cmpn.left), unparse(cmpn.comparators[0])
        op = type(cmpn.ops[0])
        flip = {ast.Lt: ast.Gt, ast.Gt: ast.Lt, ast.LtE: ast.GtE, ast.GtE: ast.LtE}
        if r == idx and op in flip:
            l, r, op = r, l, flip[op]
        if l != idx:
            continue
        if r.endswith(".end"):
            seen_end = True
            in_pop = any(isinstance(w, ast.While) and any(x is cmpn for x in ast.walk(w.test)) for w in ast.walk(lp))
            if op is ast.GtE:
                ctx.ok("R2", fi.site(cmpn), f"_scope_tokens: child range left when {idx} >= {r} (exclusive end)")
            elif op is ast.Gt:
                ctx.viol("R2", "_scope_tokens/leave-child", fi.site(cmpn),
                         f"the finished child range is only dropped when {idx} > {r}; the end is exclusive, so the token AT {r} belongs to the parent and is "
                         f"skipped: a nested function directly followed by a one-token line (e.g. the closing brace) makes the parent one line short")
            elif op is ast.Lt:
                ctx.ok("R2", fi.site(cmpn), f"_scope_tokens: inside child while {idx} < {r}")
            elif op is ast.LtE:
                ctx.viol("R2", "_scope_tokens/inside-child", fi.site(cmpn), f"{idx} <= {r} treats the first token after the nested function as part of it")
        elif r.endswith(".start"):
            seen_start = True
            if op is ast.Lt:
                ctx.ok("R2", fi.site(cmpn), f"_scope_tokens: parent token kept when {idx} < {r}")
            elif op is ast.LtE:
                ctx.viol("R2", "_scope_tokens/before-child", fi.site(cmpn), f"{idx} <= {r} counts the nested function's first token for the parent as well")
            elif op is ast.GtE:
                ctx.ok("R2", fi.site(cmpn), f"_scope_tokens: inside child from {idx} >= {r}")
            elif op is ast.Gt:
                ctx.viol("R2", "_scope_tokens/before-child", fi.site(cmpn), f"{idx} > {r} counts the nested function's first token for the parent as well")
    if not (seen_end and seen_start):
        raise AnalysisError("_scope_tokens: comparisons of the index with the child range's start/end not recognised")


def rule_R3(ctx, prj, rid="R3"):
    ctx.rule(rid, "a measurement's span starts at the location of the token at header.token_range.start and ends at "
                  "(line of the token at block.end - 1, its column + len(its text)) - both read from the same "
                  "comment-free list; its name is the header's name; its length is count_lines of that scope", floor=4)
    fi0 = prj.func(f"{SC}:scan_file")
    found = [(f, c) for f in with_helpers(prj, fi0) for c in f.calls() if attr_chain(c.func) == "Measurement"]
    if len(found) != 1:
        raise AnalysisError(f"scan_file: expected one Measurement(...) construction, found {len(found)}")
    fi, c = found[0]
    args = list(c.args) + [None] * 4
    kw = {k.arg: k.value for k in c.keywords}
    name, start, end, length = (args[0] or kw.get("unit_name"), args[1] or kw.get("start"), args[2] or kw.get("end"), args[3] or kw.get("value"))
    if any(x is None for x in (name, start, end, length)):
        raise AnalysisError(f"{fi.site(c)}: arguments of Measurement(...) not understood")
    import re
    loops = enclosing(fi, c, (ast.For, ast.ListComp, ast.GeneratorExp))
    sv = None
    for lp in loops:
        tgt = lp.target if isinstance(lp, ast.For) else lp.generators[0].target
        if isinstance(tgt, ast.Name):
            sv = tgt.id
            break
    if sv is None:
        mm = re.search(r"(\w+)\.header\b", unparse(expand(fi, start)) + " " + unparse(expand(fi, name)))
        sv = mm.group(1) if mm else (fi.params()[0] if fi.params() else "scope")
    L = None
    st = expand(fi, start)
    t_start = unparse(st)
    m = re.fullmatch(r"(.+)\[" + re.escape(sv) + r"\.header\.token_range\.start\]\.location", t_start)
    if m:
        L = m.group(1)
        ctx.ok(rid, fi.site(c), f"span start = {t_start}")
    else:
        ctx.viol(rid, "scan_file/span-start", fi.site(c), f"span start is {t_start[:80]}; required <code tokens>[{sv}.header.token_range.start].location (the header's first token)")
    en = expand(fi, end)
    ok = False
    if isinstance(en, ast.Call) and attr_chain(en.func) == "Location" and len(en.args) == 2:
        line_t, col_t = unparse(en.args[0]), unparse(en.args[1])
        last = f"{L or 'code_tokens'}[{sv}.block.end - 1]"
        want_line = f"{last}.location.line"
        want_cols = {f"{last}.location.column + len({last}.value)", f"len({last}.value) + {last}.location.column"}
        if line_t == want_line and col_t in want_cols:
            ok = True
            ctx.ok(rid, fi.site(c), f"span end = ({want_line}, column + len(value)) of the last body token")
        else:
            what = []
            if line_t != want_line:
                what.append(f"line is {line_t}")
            if col_t not in want_cols:
                what.append(f"column is {col_t}")
            ctx.viol(rid, "scan_file/span-end", fi.site(c), f"span end: {'; '.join(what)}; required line of {last} and its column + len(its text) "
                     f"(block.end is exclusive: the last body token is at block.end - 1)")
    else:
        ctx.viol(rid, "scan_file/span-end", fi.site(c), f"span end is {unparse(en)[:80]}, not a Location built from the last body token")
    nm = term(fi, name)
    if nm in (f"{sv}.header.name()", f"{sv}.header.name_token.value"):
        ctx.ok(rid, fi.site(c), f"name = {nm}")
    else:
        ctx.viol(rid, "scan_file/name", fi.site(c), f"the reported name is {nm}; required the header's name token text")
    ln = expand(fi, length)
    if isinstance(ln, ast.Call) and prj.resolve_callee_name(fi, ln).endswith(":count_lines") and unparse(ln.args[0]) == sv:
        ctx.ok(rid, fi.site(c), f"length = count_lines({sv}, …)")
    else:
        ctx.viol(rid, "scan_file/length", fi.site(c), f"the reported length is {unparse(ln)[:60]}; required count_lines({sv}, code tokens)")


def rule_R4(ctx, prj):
    ctx.rule("R4", "block discovery boundary conditions (each a necessary condition on canonical programs): a brace block's "
                   "range ends one past its closing brace; balanced matching pushes on the opening and pops on the closing "
                   "symbol and pairs (popped index, current index); a Python suite consists of the following lines whose first "
                   "token is indented strictly deeper than the header's first token, and its range ends one past its last "
                   "token (each violating form was confirmed against the real code to mis-measure a canonical program)", floor=6)
    gb = prj.func(f"{SCU}:get_blocks")
    ctors = [c for c in gb.calls() if attr_chain(c.func) == "TokenRange" and len(c.args) == 2]
    evaluated_blocks = _get_blocks_evaluated(ctx, prj, gb)
    if evaluated_blocks:
        ctors = []
    elif not ctors:
        raise AnalysisError(f"{gb.disp}: construction of the blocks' TokenRange not found")
    for c in ctors:
        first = second = None
        for lp in enclosing(gb, c, (ast.For, ast.ListComp, ast.GeneratorExp)):
            tgt, it = (lp.target, lp.iter) if isinstance(lp, ast.For) else (lp.generators[0].target, lp.generators[0].iter)
            if "get_balanced_symbol_token_indices(" not in term(gb, it):
                continue
            if isinstance(tgt, ast.Name):
                first, second = f"{tgt.id}[0]", f"{tgt.id}[1]"
            elif isinstance(tgt, ast.Tuple) and len(tgt.elts) == 2:
                first, second = unparse(tgt.elts[0]), unparse(tgt.elts[1])
        if first is None:
            raise AnalysisError(f"{gb.site(c)}: the TokenRange is not built per balanced (open, close) pair")
        a, b = term(gb, c.args[0]).replace(" ", ""), term(gb, c.args[1]).replace(" ", "")
        sec = second.replace(" ", "")
        if a == first.replace(" ", "") and b in (f"{sec}+1", f"1+{sec}"):
            ctx.ok("R4", gb.site(c), f"get_blocks: TokenRange({first}, {second} + 1) - exclusive end one past the closing symbol")
        elif b in (sec, f"{sec}+2", f"{sec}-1"):
            ctx.viol("R4", "get_blocks/exclusive-end", gb.site(c), f"a block's range is TokenRange({unparse(c.args[0])}, {unparse(c.args[1])}); required (open index, close index + 1): "
                     f"the closing brace {'falls outside the block (span ends one token early)' if not b.endswith('+2') else 'is followed by a foreign token inside the block'}")
        else:
            raise AnalysisError(f"{gb.site(c)}: range construction {unparse(c)[:60]} not understood")
    from ..absint import Unknown
    from .. import brackets_eval
    bal = prj.func(brackets_eval.QUAL)
    try:
        maxlen = 7 if ctx.tier == "thorough" else 4
        n, div = brackets_eval.explore(prj, maxlen)
        if div is None:
            ctx.ok("R4", bal.site(), f"balanced matching evaluated on {n} sequences over (opening, closing, other) up to length {maxlen}: the opening symbol pushes, "
                                     f"the closing one pops and records (opening index, closing index), inner pairs iff extract_nested, outermost always")
            ctx.ok("R4", bal.site(), "balanced matching: pairs as the reference matcher")
            ctx.ok("R4", bal.site(), "balanced matching: nesting flag as the reference matcher")
        else:
            seq, nested, got, want = div
            ctx.viol("R4", "get_balanced_symbol_token_indices/pairs", bal.site(),
                     f"for the token sequence {seq!r} (O opening, C closing, X other; extract_nested={nested}) the function "
                     f"{got if isinstance(got, str) else 'returns ' + str(got)}; required {want}")
    except Unknown as e:
        ctx.info(f"balanced matching not evaluable ({e}); structural reading")
        _balanced(ctx, prj, bal)
    py = prj.maybe_func("codelimit.languages.Python:Python.extract_blocks")
    if py is not None:
        if not _python_suites_evaluated(ctx, prj, py):
            _python_suites(ctx, prj, py)


def _get_blocks_evaluated(ctx, prj, gb) -> bool:
    """get_blocks interpreted on `x { y { z } } w { }`: ranges (open index, close index + 1), in source order"""
    from ..absint import MiniInterp, PyRaise, Unknown, make_token
    try:
        it = MiniInterp(prj, max_steps=300000)
        words = "x { y { z } } w { }".split()
        tokens = [make_token(it, prj, "Punctuation" if w in "{}" else "Name", w, 1 + i // 4, 2 * (i % 4) + 1) for i, w in enumerate(words)]
        r = it.call(gb, [tokens, "{", "}"], {})
        r = r.rest() if hasattr(r, "rest") else list(it.iterate(r))
        got = [(it.getattr(x, "start", gb, None), it.getattr(x, "end", gb, None)) for x in r]
    except (Unknown, PyRaise, AttributeError, KeyError, TypeError) as e:
        ctx.info(f"R4: get_blocks not evaluable ({type(e).__name__}: {e}); its range construction is read syntactically")
        return False
    want = [(1, 7), (3, 6), (8, 10)]
    if got == want:
        ctx.ok("R4", gb.site(), f"get_blocks on `x {{ y {{ z }} }} w {{ }}`: {got} - (open index, close index + 1), in source order")
    else:
        ends_short = [g for g, w in zip(got, want) if g[0] == w[0] and g[1] != w[1]]
        ctx.viol("R4", "get_blocks/exclusive-end" if ends_short or len(got) != len(want) else "get_blocks/order", gb.site(),
                 f"get_blocks on `x {{ y {{ z }} }} w {{ }}` gives {got}; required {want} (open index, close index + 1 - the closing brace is the block's last token - in source order)")
    return True


def _is_empty_test(e, stack: str):
    """-> True if e means `stack is empty`, False if it means `stack is non-empty`, None otherwise"""
    t = unparse(e).replace(" ", "")
    if t in (f"len({stack})==0", f"0==len({stack})", f"not{stack}", f"notlen({stack})", f"len({stack})<1", f"len({stack})<=0"):
        return True
    if t in (f"len({stack})>0", f"len({stack})!=0", stack, f"len({stack})", f"len({stack})>=1", f"bool({stack})"):
        return False
    return None


def _balanced(ctx, prj, bal):
    ps = bal.params()
    if len(ps) < 4:
        raise AnalysisError(f"{bal.disp}: parameters (tokens, start, end, extract_nested) expected")
    start_p, end_p, nested_p = ps[1], ps[2], ps[3]
    loops = [l for l in bal.walk() if isinstance(l, ast.For) and isinstance(l.target, ast.Tuple) and len(l.target.elts) == 2
             and isinstance(l.iter, ast.Call) and attr_chain(l.iter.func) == "enumerate"]
    if len(loops) != 1:
        raise AnalysisError(f"{bal.disp}: expected one `for index, token in enumerate(tokens)` loop, found {len(loops)}")
    lp = loops[0]
    idx, tok = unparse(lp.target.elts[0]), unparse(lp.target.elts[1])
    a_start, a_end = f"{tok}.is_symbol({start_p})", f"{tok}.is_symbol({end_p})"

    def sym(node):
        out = {}
        for a, p in atoms_at(bal, node):
            t = unparse(a)
            if t == a_start:
                out["start"] = p
            elif t == a_end:
                out["end"] = p
        return out
    calls = [c for c in ast.walk(lp) if isinstance(c, ast.Call) and isinstance(c.func, ast.Attribute) and isinstance(c.func.value, ast.Name)]
    pushes = [c for c in calls if c.func.attr == "append" and len(c.args) == 1 and unparse(c.args[0]) == idx]
    stacks = {c.func.value.id for c in pushes}
    pops = [c for c in calls if c.func.attr == "pop" and c.func.value.id in stacks and (not c.args or unparse(c.args[0]) == "-1")]
    if len(stacks) != 1:
        raise AnalysisError(f"{bal.disp}: expected one stack of opening indices, found {sorted(stacks)}")
    stack = next(iter(stacks))
    for c in pushes:
        at = sym(c)
        if at.get("start") is True:
            ctx.ok("R4", bal.site(c), "balanced matching: the opening symbol pushes its index")
        elif at.get("end") is True or at.get("start") is False:
            ctx.viol("R4", "get_balanced_symbol_token_indices/open", bal.site(c), f"the index is pushed when the token is {'the closing symbol' if at.get('end') else 'not the opening symbol'}; required: push on the opening symbol")
        else:
            raise AnalysisError(f"{bal.site(c)}: the condition under which the index is pushed is not understood")
    good_pops = [c for c in pops if sym(c).get("end") is True]
    bad_pops = [c for c in pops if sym(c).get("start") is True]
    if bad_pops:
        ctx.viol("R4", "get_balanced_symbol_token_indices/close", bal.site(bad_pops[0]), "the stack is popped on the opening symbol; required: pop the matching opening index on the closing symbol")
    elif not good_pops:
        if pops:
            raise AnalysisError(f"{bal.site(pops[0])}: the condition under which the stack is popped is not understood")
        ctx.viol("R4", "get_balanced_symbol_token_indices/close", bal.site(lp), "on the closing symbol nothing is popped; required: pop the matching opening index")
    # recorded pair
    recs = [c for c in calls if c.func.attr == "append" and c.func.value.id != stack and len(c.args) == 1]
    pairs = []
    for c in recs:
        e = c.args[0]
        if isinstance(e, ast.Tuple) and len(e.elts) == 2:
            pairs.append((c, e))
    if not pairs:
        raise AnalysisError(f"{bal.disp}: no recorded (opening, closing) pair found")
    for c, e in pairs:
        a, b = unparse(expand(bal, e.elts[0], skip=(stack,))), unparse(expand(bal, e.elts[1], skip=(stack,)))
        popt = (f"{stack}.pop()", f"{stack}.pop(-1)")
        if a in popt and b == idx:
            ctx.ok("R4", bal.site(c), "balanced matching: the closing symbol pops and records (opening index, closing index)")
        elif b in popt and a == idx:
            ctx.viol("R4", "get_balanced_symbol_token_indices/pair", bal.site(c), f"the recorded pair is ({unparse(e.elts[0])}, {unparse(e.elts[1])}) = (closing index, opening index); required (popped opening index, current index)")
        elif a == idx and b == idx or a in popt and b in popt:
            ctx.viol("R4", "get_balanced_symbol_token_indices/pair", bal.site(c), f"the recorded pair is ({a}, {b}); required (popped opening index, current index)")
        else:
            raise AnalysisError(f"{bal.site(c)}: recorded pair ({a}, {b}) not understood")
        # nesting flag: among the guards of the recording, the one that mentions the flag
        flagged = [g for g in guards_of(bal, c) if nested_p in {n.id for n in ast.walk(expand(bal, g.test, skip=(stack,))) if isinstance(n, ast.Name)}]
        if not flagged:
            ctx.viol("R4", "get_balanced_symbol_token_indices/nesting-flag", bal.site(c), f"the pair is recorded whatever `{nested_p}` is; required `{nested_p} or <stack empty>`: inner pairs only when nested extraction is asked for")
            continue
        if len(flagged) > 1:
            raise AnalysisError(f"{bal.site(c)}: several conditions mention `{nested_p}`")
        g = flagged[0]
        test = expand(bal, g.test, skip=(stack,))
        pol = g.polarity
        ok = None
        if isinstance(test, ast.BoolOp) and len(test.values) == 2:
            names = [isinstance(v, ast.Name) and v.id == nested_p for v in test.values]
            other = test.values[1] if names[0] else test.values[0] if names[1] else None
            if other is not None and pol:
                emp = _is_empty_test(other, stack)
                if isinstance(test.op, ast.Or) and emp is True:
                    ok = True
                elif isinstance(test.op, ast.And) or emp is False:
                    ok = False
        elif isinstance(test, ast.Name) and pol:
            ok = False
        if ok is True:
            ctx.ok("R4", bal.site(c), "balanced matching: inner pairs recorded iff extract_nested, outermost always")
        elif ok is False:
            ctx.viol("R4", "get_balanced_symbol_token_indices/nesting-flag", bal.site(c), f"a pair is recorded when `{unparse(test)}`; required `{nested_p} or <stack empty>`")
        else:
            raise AnalysisError(f"{bal.site(c)}: recording condition `{unparse(test)}` (polarity {pol}) not understood")


def _python_suites_evaluated(ctx, prj, py) -> bool:
    """Python.extract_blocks interpreted on token programs with a reference; False when it leaves the interpreted fragment"""
    from ..absint import Unknown
    from .. import pyblocks_eval
    try:
        res = pyblocks_eval.evaluate(prj)
    except (Unknown, AnalysisError) as e:
        ctx.info(f"Python.extract_blocks not evaluable ({e}); structural reading of its comparisons")
        return False
    bad = [(n, g, w) for n, g, w in res if g != w]
    if not bad:
        ctx.ok("R4", py.site(), f"Python suites: evaluated on {len(res)} token programs (sibling at the header's indentation, header over two lines, nested and "
                                f"one-line functions, method bodies, header at the end of the file): the suite is the run of following lines indented "
                                f"strictly deeper than the header's first token, ending one past its last token")
        ctx.ok("R4", py.site(), "Python suites: the scan stops at the header's own line (evaluated)")
        ctx.ok("R4", py.site(), "Python suites: range ends one past the suite's last token (evaluated)")
        return True
    n, g, w = bad[0]
    key = "Python.extract_blocks/indentation"
    if isinstance(g, str):
        key = "Python.extract_blocks/raises"
    elif "two lines" in n or "one-line" in n or (isinstance(g, list) and len(g) < len(w)):
        key = "Python.extract_blocks/header-line"          # a function lost its suite (or took its header's own line into it)
    elif isinstance(g, list) and len(g) == len(w) and all(a[0] == b[0] for a, b in zip(g, w)) and any(a[1] < b[1] for a, b in zip(g, w)):
        key = "Python.extract_blocks/exclusive-end"        # same start, shorter: the last token falls outside
    ctx.viol("R4", key, py.site(), f"for the program '{n}' Python.extract_blocks {g if isinstance(g, str) else 'returns the token ranges ' + str(g)}; required {w} "
                                   f"(the lines after the header's last line indented strictly deeper than the header's first token, up to the first "
                                   f"line that is not, from the first token of the first to one past the last token of the last)"
                                   + (f"; {len(bad)} of {len(res)} programs differ" if len(bad) > 1 else ""))
    return True


def _python_suites(ctx, prj, py):
    """comparison operators of the indentation scan, identified by what the operands ARE (terms), not by their names"""
    def kind(e):
        t = term(py, e)
        if t.endswith(".location.column") or t.endswith(".column"):
            return "HDR_COL" if ".start]" in t else "LINE_COL"
        if t.endswith(".location.line") or t.endswith(".line"):
            return "HDR_LINE" if ".end]" in t else "LINE_LINE"
        return None
    flipop = {ast.Lt: ast.Gt, ast.Gt: ast.Lt, ast.LtE: ast.GtE, ast.GtE: ast.LtE}
    n_ind = n_line = 0
    for cmpn in [c for c in py.walk() if isinstance(c, ast.Compare) and len(c.ops) == 1]:
        op = type(cmpn.ops[0])
        if op not in flipop:
            continue
        kl, kr = kind(cmpn.left), kind(cmpn.comparators[0])
        if (kl, kr) in (("HDR_COL", "LINE_COL"), ("HDR_LINE", "LINE_LINE")):
            kl, kr, op = kr, kl, flipop[op]
        if (kl, kr) == ("LINE_COL", "HDR_COL"):
            n_ind += 1
            if op in (ast.Gt, ast.LtE):
                ctx.ok("R4", py.site(cmpn), "Python suites: a line belongs to the body iff its indentation is strictly deeper than the header's")
            else:
                ctx.viol("R4", "Python.extract_blocks/indentation", py.site(cmpn), f"`{unparse(cmpn)}`: a line at the SAME indentation as the header (the next sibling "
                         f"function, or code after the function) is swallowed into the body")
        elif (kl, kr) == ("LINE_LINE", "HDR_LINE"):
            n_line += 1
            if op in (ast.LtE, ast.Gt):
                ctx.ok("R4", py.site(cmpn), "Python suites: the scan stops at the header's own line (line <= header line)")
            else:
                ctx.viol("R4", "Python.extract_blocks/header-line", py.site(cmpn), f"`{unparse(cmpn)}`: the header's own line is examined as a candidate body line; it is not indented deeper than itself, which resets the suite collected so far - the function loses its body and is not reported")
    if not n_ind or not n_line:
        raise AnalysisError(f"{py.disp}: the comparisons of a line's indentation / line number with the header's were not found")
    ctors = [c for c in py.calls() if attr_chain(c.func) == "TokenRange" and len(c.args) == 2]
    if not ctors:
        raise AnalysisError(f"{py.disp}: construction of the suite's TokenRange not found")
    for c in ctors:
        t = term(py, c.args[1]).replace(" ", "")
        if ".index(" in t and t.endswith(")+1"):
            ctx.ok("R4", py.site(c), "Python suites: range ends one past the suite's last token")
        elif ".index(" in t and t.endswith(")"):
            ctx.viol("R4", "Python.extract_blocks/exclusive-end", py.site(c), f"end = {term(py, c.args[1])[:60]}: the suite's last token falls outside the (exclusive) range")
        else:
            raise AnalysisError(f"{py.site(c)}: end of the suite's range `{t[:60]}` not understood")


def rule_R5_pipeline(ctx, prj, rid="R5", clauses=None) -> bool:
    """the measuring pipeline evaluated on the abstract brace program of sa/measure_eval.py; False when not evaluable"""
    from ..absint import PyRaise, Unknown
    from .. import measure_eval as ME
    ctx.rule(rid, "scan_file evaluated (build_scopes, pairing, marker filter, nesting, unfolding, count_lines, Measurement "
                  "construction interpreted; the language object a stub that finds headers and brace blocks in the token list it is "
                  "handed) on a program with a nested function followed by a statement of its parent, a one-line function, a "
                  "suppressed function, markers elsewhere, comments inside bodies and between functions: names, spans "
                  "(first header token .. one past the closing token), lengths (distinct lines of own code tokens) and order "
                  "equal the reference, with and without nested functions, with extra comment lines, with and without the marker", floor=4)
    fi = prj.func(f"{SC}:scan_file")
    try:
        for name, nested, got, want in ME.scenarios(prj):
            if nested is None:
                if want == "moved" and got:
                    ctx.viol(rid, "scan_file/token-positions", fi.site(), f"measuring changes the tokens it is given: {got[0]}: positions are no longer those of the source "
                                                                       f"text (a second pass over the same tokens, or anything shown next to them, is off)")
                continue
            clause, text = ME.describe_difference(got, want)
            mode = "nested functions allowed" if nested else "nested functions not allowed"
            if clause and (clauses is None or clause in clauses):
                ctx.viol(rid, f"scan_file/{clause}", fi.site(), f"{name}, {mode}: {text}")
            elif not clause:
                ctx.ok(rid, fi.site(), f"{name}, {mode}: {len(got)} measurements as the reference")
    except (Unknown, PyRaise) as e:
        ctx.info(f"measuring pipeline not evaluable ({type(e).__name__}: {e}); structural rules decide")
        ctx.rule(rid, "measuring pipeline not evaluable by the interpreter: structural rules decide", floor=0)
        ctx.violations[:] = [v for v in ctx.violations if v.rule != rid]
        return False
    return True


def run(ctx, prj: Project):
    ctx.explanation = (
        "Three structural necessary conditions of the span and length clauses: (R1) every consumer of scope indices works "
        "on the same comment-free list filter_tokens(raw); (R2) the comparisons that exclude nested functions from a "
        "parent's tokens are the half-open ones for exclusive range ends; (R3) the Measurement is built from the header's "
        "first token, the last body token (block.end - 1) plus its text length, the header's name and count_lines. That the "
        "header patterns, block discovery, nearest-block pairing and folding find exactly the functions of a canonical "
        "grammar is algorithmic correctness and is NOT decided (e.g. async def, three-level nesting, brace groups in "
        "parameter lists are invisible to this family).")
    ctx.not_decided = ["each named function is reported exactly once and nothing else is (joint behaviour of find_all, _get_nearest_block, "
                       "_find_scope_blocks_indices, fold_scopes and the Python indentation scan on all token sequences)"]
    ctx.trust("CPython ast", "TokenRange ends are exclusive (established from get_blocks: TokenRange(bt[0], bt[1] + 1), and tokens[start:end])")
    if not rule_R5_pipeline(ctx, prj):
        c04.rule_R1(ctx, prj, rid="R1")
        rule_R2(ctx, prj)
        rule_R3(ctx, prj)
    rule_R4(ctx, prj)
