"""C05 - Every reported measurement is well-formed, for every input (structural clauses; numeric bounds not decided)."""
from __future__ import annotations

import ast
import re

from ..core import (AnalysisError, FuncInfo, Project, attr_chain, const_int, enclosing, expand, guards_of, local_defs,
                    term, unparse, with_helpers)
from ..order import POS, OrderAnalysis, OrderUnknown, emission_order, sort_direction
from . import c01

SC = "codelimit.common.Scanner"
SCU = "codelimit.common.scope.scope_utils"


def rule_R1(ctx, prj):
    if rule_R1_evaluated(ctx, prj):
        return
    rule_R1_structural(ctx, prj)


def rule_R1_evaluated(ctx, prj) -> bool:
    """entries produced by the interpreted scan_path (measuring stubbed: 40 + 7 lines per file) and entries read back by the
    interpreted ReportReader carry loc = sum of the values of the measurements stored with them"""
    from ..absint import PyRaise, Unknown
    from .. import walk_eval as W
    from ..report_eval import ReportLab
    ctx.rule("R1", "a file's line total is the sum of its function lengths: every entry of the codebase returned by the "
                   "interpreted scan_path (virtual tree; the measuring function stubbed to two functions of 40 and 7 lines) has "
                   "loc = 47 and exactly those measurements; every entry read back by the interpreted ReportReader from a "
                   "written report has the written loc and measurements", floor=3)
    sp = prj.func(f"{SC}:scan_path")
    try:
        es = W.scanned_entries(prj)
        if not es:
            raise Unknown("no entry was produced")
        bad = [e for e in es if e[3] != sum(e[4]) or e[4] != [40, 7]]
        if bad:
            k, _, _, loc, vals, _ = bad[0]
            ctx.viol("R1", "_analyze_file/SourceFileEntry", sp.site(), f"the entry of {k} has line total {loc} and measurements of lengths {vals}; required the two measured functions (40, 7) "
                     f"and their sum 47: the total is not the sum of the lengths stored with it ({len(bad)} of {len(es)} entries)")
        else:
            ctx.ok("R1", sp.site(), f"scan path: {len(es)} entries, each with loc = sum of the lengths of its measurements")
            ctx.ok("R1", sp.site(), "scan path: measurements stored unchanged")
        lab = ReportLab(prj)
        rep = lab.sample(False, "1.0")
        back = lab.read(lab.write(rep, True))
        a, b = lab.snapshot(rep)["files"], lab.snapshot(back)["files"]
        rfi = prj.func("codelimit.common.report.ReportReader:ReportReader.from_json")
        badr = [(x, y) for x, y in zip(a, b) if x[4] != y[4] or x[5] != y[5] or y[4] != sum(m[5] for m in y[5])]
        if badr or len(a) != len(b):
            ctx.viol("R1", "ReportReader.from_json/SourceFileEntry", rfi.site(), f"an entry read back has line total {badr[0][1][4] if badr else '?'} for measurements of lengths "
                     f"{[m[5] for m in badr[0][1][5]] if badr else '?'} (written: {badr[0][0][4] if badr else '?'})")
        else:
            ctx.ok("R1", rfi.site(), f"read path: {len(b)} entries with the written line totals = sum of their measurements")
        # the third construction site: an entry taken over from the cached report of an earlier scan
        from ..cache_eval import cached_scan
        out, _, _, _ = cached_scan(prj)
        sf = prj.maybe_func(f"{SC}:_scan_file") or sp
        badc = {k: v for k, v in out.items() if v[0] != sum(v[1])}
        if not any(v[1] == [55, 44] for v in out.values()):
            raise Unknown("the scan with a cached report reuses no entry")
        if badc:
            k, v = next(iter(badc.items()))
            ctx.viol("R1", "_scan_file/SourceFileEntry", sf.site(), f"after a scan with a cached report the entry of {k} has line total {v[0]} for "
                                                                      f"measurements of lengths {v[1]} (sum {sum(v[1])}): the total is not the sum of the lengths stored with it")
        else:
            ctx.ok("R1", sf.site(), f"scan with a cached report: {len(out)} entries (reused and re-analysed), each with loc = sum of its measurements")
    except (Unknown, PyRaise) as e:
        ctx.info(f"entries not evaluable ({type(e).__name__}: {e}); structural pairing rule decides")
        ctx.violations[:] = [v for v in ctx.violations if v.rule != "R1"]
        ctx.instances["R1"] = []
        return False
    return True


def rule_R1_structural(ctx, prj):
    ctx.rule("R1", "a file's line total is the sum of its function lengths at every construction of a SourceFileEntry on "
                   "the scan and read paths: sum(.value over M) with the same M, (E.loc, E.measurements()) of the same cached "
                   "entry, or (v['loc'], list built from v['measurements']) of the same JSON object", floor=3)
    sites = [prj.func(f"{SC}:_analyze_file"), prj.func(f"{SC}:_scan_file"), prj.func("codelimit.common.report.ReportReader:ReportReader.from_json")]
    n = 0
    for fi in sites:
        for c in fi.calls():
            if attr_chain(c.func) != "SourceFileEntry" or len(c.args) < 5:
                continue
            n += 1
            loc, ms = _unwrap(prj, fi, c.args[3]), _unwrap(prj, fi, c.args[4])
            key = f"{fi.local}/SourceFileEntry"
            ok = False
            forms = [(loc, ms), (_unwrap(prj, fi, expand(fi, loc)), _unwrap(prj, fi, expand(fi, ms))), (_unwrap(prj, fi, expand(fi, loc)), ms)]
            lt, mt = term(fi, loc), unparse(ms)
            for le, me in forms:
                l_, m_ = unparse(le), unparse(me)
                if _is_sum_of_values(le, me):
                    ok = True
                elif l_.endswith(".loc") and m_ == l_[:-4] + ".measurements()":
                    ok = True
                elif l_.endswith("['loc']"):
                    base = l_[: -len("['loc']")]
                    ok = ok or (isinstance(ms, ast.Name) and (_filled_from(fi, ms.id, f"{base}['measurements']")
                                                              or any(_filled_from(fi, ms.id, unparse(w)) for w in _wrappings(prj, fi, f"{base}['measurements']"))))
                if ok:
                    lt, mt = l_, m_
                    break
            if ok:
                ctx.ok("R1", fi.site(c), f"{key}: loc = {lt[:50]} belongs to measurements {mt}")
            elif _clearly_unrelated(lt, mt):
                ctx.viol("R1", key, fi.site(c), f"the entry's line total is {lt[:70]} while its measurements are {mt}: the total is not the sum of the lengths stored with it")
            else:
                raise AnalysisError(f"{fi.site(c)}: how the line total {lt[:60]} relates to the measurements {mt[:40]} is not understood")
    if n < 3:
        raise AnalysisError(f"only {n} SourceFileEntry constructions found on the scan/read paths (3 confirmed by reading)")


def _identity_wrappers(prj) -> set:
    """functions of the project that return their first argument unchanged on every path (validators such as _typed(value, type))"""
    key = id(prj)
    if key not in _IDW:
        out = set()
        for q, f in prj.funcs.items():
            ps = [p for p in f.params() if p not in ("self", "cls")]
            rets = [n for n in f.walk() if isinstance(n, ast.Return)]
            if ps and rets and all(isinstance(r.value, ast.Name) and r.value.id == ps[0] for r in rets) and not any(
                    isinstance(n, (ast.Assign, ast.AugAssign)) and ps[0] in {t.id for t in ast.walk(n) if isinstance(t, ast.Name) and isinstance(t.ctx, ast.Store)} for n in f.walk()):
                out.add(f.name)
        _IDW[key] = out
    return _IDW[key]


_IDW: dict = {}


def _unwrap(prj, fi, e):
    """e with calls of identity wrappers replaced by their first argument"""
    names = _identity_wrappers(prj)

    class Strip(ast.NodeTransformer):
        def visit_Call(self, n):
            self.generic_visit(n)
            if (attr_chain(n.func) or "").split(".")[-1] in names and n.args:
                return n.args[0]
            return n
    import copy
    return Strip().visit(copy.deepcopy(e)) if e is not None else e


def _wrappings(prj, fi, source: str):
    """the iterables in fi that are `source` wrapped in an identity wrapper"""
    out = []
    for n in fi.walk():
        if isinstance(n, ast.Call) and n.args and unparse(_unwrap(prj, fi, n)) == source and unparse(n) != source:
            out.append(n)
    return out


def _clearly_unrelated(lt: str, mt: str) -> bool:
    """positively wrong pairings: a count where a sum belongs, or loc and measurements of two different objects"""
    if lt.startswith("len("):
        return True
    for suf, other in ((".loc", ".measurements()"), ("['loc']", None)):
        if lt.endswith(suf):
            base = lt[: -len(suf)]
            if other and mt.endswith(other) and mt[: -len(other)] != base:
                return True
    return False


def _filled_from(fi: FuncInfo, name: str, source: str, depth=0) -> bool:
    """local list `name` holds one element per element of `source` (comprehension, or [] + append in a loop over it,
    possibly through aliases)"""
    if depth > 4:
        return False
    for v, _ in local_defs(fi, name):
        if v is None:
            continue
        if isinstance(v, ast.ListComp) and len(v.generators) == 1 and source in (unparse(v.generators[0].iter), unparse(expand(fi, v.generators[0].iter))):
            return True
        if isinstance(v, ast.Name) and _filled_from(fi, v.id, source, depth + 1):
            return True
    for l in fi.walk():
        if isinstance(l, ast.For) and source in (unparse(l.iter), unparse(expand(fi, l.iter))):
            for a in ast.walk(l):
                if isinstance(a, ast.Call) and isinstance(a.func, ast.Attribute) and a.func.attr == "append" and unparse(a.func.value) == name:
                    return True
    return False


def _is_sum_of_values(le, me) -> bool:
    """le is sum(<x>.value for <x> in ME) (list or generator form) with ME structurally equal to me"""
    if not (isinstance(le, ast.Call) and attr_chain(le.func) == "sum" and len(le.args) == 1):
        return False
    g = le.args[0]
    if not (isinstance(g, (ast.GeneratorExp, ast.ListComp)) and len(g.generators) == 1 and not g.generators[0].ifs):
        return False
    gen = g.generators[0]
    if not (isinstance(gen.target, ast.Name) and unparse(g.elt) == f"{gen.target.id}.value"):
        return False
    return ast.dump(gen.iter) == ast.dump(me)


def _reverse_arg(call: ast.Call):
    kw = {k.arg: k.value for k in call.keywords}
    rv = kw.get("reverse")
    if len(call.args) > 2:
        rv = call.args[2]
    if rv is None:
        return False
    if isinstance(rv, ast.Constant) and isinstance(rv.value, bool):
        return rv.value
    return None


def _sort_headers_concrete(prj, sh):
    """{reverse: (positions in the order sort_headers returns them, required order)} on headers built through the repo's classes,
    or None when that is not evaluable"""
    from ..absint import MiniInterp, PyRaise, Unknown, make_token
    try:
        H = prj.cls("codelimit.common.scope.Header:Header")
        TR = prj.cls("codelimit.common.TokenRange:TokenRange")
        pos = [(3, 1), (1, 9), (1, 2), (2, 5), (3, 7), (2, 1), (10, 1), (9, 30)]
        out = {}
        for rv in (False, True):
            it = MiniInterp(prj, max_steps=200000)
            tokens = [make_token(it, prj, "Name", f"n{i}", ln, col) for i, (ln, col) in enumerate(pos)]
            hs = [it.construct(H, [tokens[i], it.construct(TR, [i, i + 1], {}, None, sh)], {}, None, sh) for i in range(len(pos))]
            kwargs = {"reverse": rv} if "reverse" in sh.params() else {}
            if rv and not kwargs:
                return None
            r = it.call(sh, [hs, tokens], kwargs)
            r = r.rest() if hasattr(r, "rest") else r
            got = []
            for h in r:
                tr = it.getattr(h, "token_range", sh, None)
                got.append(pos[tr.fields.get("start")])
            out[rv] = (got, sorted(pos, reverse=rv))
        return out
    except (Unknown, PyRaise, AnalysisError, AttributeError, KeyError, TypeError):
        return None


def rule_R2(ctx, prj, typestate=True):
    ctx.rule("R2", "measurements come out in source order: sort_headers orders by the (line, column) pair of the header's "
                   "first token in the direction of its reverse parameter (key evaluated symbolically); the order "
                   "typestate of the scope list is 'ascending position' at the return of "
                   "_build_scopes_from_headers_and_blocks and is preserved through build_scopes (filters, folding); "
                   "fold_scopes puts every scope in exactly one place; unfold_scopes is a pre-order walk", floor=5)
    sh = prj.func("codelimit.common.scope.Header:sort_headers")
    dirs = {}
    bad = False
    concrete = _sort_headers_concrete(prj, sh)
    for rv in (False, True):
        try:
            m = sort_direction(prj, sh, rv, "token_range.start")
        except AnalysisError:
            m = None
        if m is None or m.wrong:
            # the symbolic reading of the key is a shortcut; what decides is sort_headers evaluated on headers built through the repo's
            # own classes, whose first tokens lie at scrambled positions (ties on the line, on the column)
            if concrete is None:
                if m is None:
                    raise AnalysisError(f"{sh.disp}: the sort could be evaluated neither symbolically nor on concrete headers")
                ctx.viol("R2", "sort_headers/key", m.site or sh.site(), f"sort_headers: {m.wrong}")
                bad = True
                break
            got, want = concrete[rv]
            if got != want:
                ctx.viol("R2", "sort_headers/key" if sorted(got) == sorted(want) and got != want[::-1] else "sort_headers/direction", sh.site(),
                         f"sort_headers(reverse={rv}) orders headers whose first tokens lie at {want if not rv else want[::-1]} (in source order) as {got}; "
                         f"required {'descending' if rv else 'ascending'} (line, column)")
                bad = True
                break
            dirs[rv] = rv
            continue
        dirs[rv] = m.descending
    if not bad:
        if dirs == {False: False, True: True}:
            ctx.ok("R2", sh.site(), "sort_headers: ordered by (line, column) of tokens[h.token_range.start], ascending for reverse=False, descending for reverse=True")
        else:
            ctx.viol("R2", "sort_headers/direction", sh.site(),
                     f"sort_headers ignores or inverts its reverse parameter: descending={dirs[False]} for reverse=False, descending={dirs[True]} for reverse=True")

    if not typestate:
        return

    def sorter(state, call):
        r = _reverse_arg(call)
        if r is None:
            raise OrderUnknown(f"direction argument of {unparse(call)[:50]}")
        if not call.args or state.dir_of(call.args[0]) is None and not isinstance(call.args[0], ast.Name):
            pass
        return (POS, r)
    oa = OrderAnalysis(prj, {sh.qual: sorter})
    b = prj.func(f"{SCU}:_build_scopes_from_headers_and_blocks")
    try:
        rets = oa.returns(b)
    except OrderUnknown as e:
        raise AnalysisError(f"{b.disp}: order typestate not derivable ({e})")
    if rets == {(POS, False)}:
        ctx.ok("R2", b.site(), "_build_scopes_from_headers_and_blocks: order typestate at return = ascending header position")
    elif (POS, True) in rets:
        ctx.viol("R2", "_build_scopes/order", b.site(), "scopes are returned in DESCENDING order of their header position (the reversals do not restore ascending order): measurements come out in reverse source order")
    elif any(d and isinstance(d[0], tuple) and d[0][0] == "param" for d in rets):
        ctx.viol("R2", "_build_scopes/unsorted", b.site(), "scopes are built in the order of the headers parameter, which is not sorted by position: JavaScript/TypeScript results (functions + arrow functions) come out grouped by kind, not in source order")
    else:
        raise AnalysisError(f"{b.disp}: order typestate at return is {rets}: not derivable")
    # whole pipeline: build_scopes returns ascending position whatever the helpers in between are called
    bs = prj.func(f"{SCU}:build_scopes")
    oa2 = OrderAnalysis(prj, {sh.qual: sorter, b.qual: (lambda state, call: (POS, False))})
    try:
        rets = oa2.returns(bs)
    except OrderUnknown as e:
        raise AnalysisError(f"{bs.disp}: order typestate not derivable ({e})")
    if rets == {(POS, False)}:
        ctx.ok("R2", bs.site(), "build_scopes: every return is in ascending header position (marker filter, nesting filter and folding select / regroup without reordering)")
    elif any(d == (POS, True) for d in rets):
        ctx.viol("R2", "build_scopes/reorders", bs.site(), "build_scopes returns the scopes in reversed source order on some path")
    else:
        culprit = None
        for c in bs.calls():
            tg, kind = prj.resolve_call(bs, c)
            for t in tg:
                f = prj.func(t.qual)
                badc = [x for x in f.calls() if (attr_chain(x.func) or "").split(".")[-1] in ("sorted", "reversed", "sort", "reverse", "insert")]
                if badc and t.qual not in (sh.qual, b.qual):
                    culprit = (f, badc[0])
        if culprit:
            f, c = culprit
            ctx.viol("R2", f"{f.local}/reorders", f.site(c), f"{f.local} reorders scopes: {unparse(c)[:50]}")
        else:
            raise AnalysisError(f"{bs.disp}: order typestate at return is {rets}: not derivable")
    # fold_scopes: exactly one placement per scope, no recursion / second pass
    fo = prj.func(f"{SCU}:fold_scopes")
    loops = [l for l in fo.node.body if isinstance(l, ast.For)]
    rec = [c for c in fo.calls() if fo in prj.resolve_call(fo, c)[0]]
    if len(loops) == 1 and not rec:
        apps = [c for c in ast.walk(loops[0]) if isinstance(c, ast.Call) and isinstance(c.func, ast.Attribute) and c.func.attr == "append"]
        # each append sits in a different, mutually exclusive branch
        branches = set()
        for c in apps:
            ifs = enclosing(fo, c, ast.If)
            sig = tuple((id(i), "b" if any(x is c for s in i.body for x in ast.walk(s)) else "e") for i in ifs)
            branches.add(sig)
        if len(branches) == len(apps) and all(unparse(c.args[0]) == unparse(loops[0].target) for c in apps):
            ctx.ok("R2", fo.site(), f"fold_scopes: one pass, each scope appended in exactly one of {len(apps)} exclusive branches")
        else:
            ctx.viol("R2", "fold_scopes/placement", fo.site(), "fold_scopes can place a scope in more than one list")
    else:
        why = "calls itself" if rec else f"has {len(loops)} top-level loops"
        ctx.viol("R2", "fold_scopes/second-pass", fo.site(rec[0]) if rec else fo.site(),
                 f"fold_scopes {why}: a scope that was already placed under its parent is placed again further down (grandchildren end up both in the "
                 f"parent's and in the child's children), so unfold_scopes reports it twice - equal starts, length counted twice in the file total")
    un = prj.func(f"{SCU}:unfold_scopes")
    events, site, where = emission_order(prj, un, "children")
    if events == ["elem", "rec"]:
        ctx.ok("R2", site, f"unfold_scopes ({where.local}): pre-order (the scope, then the walk of its children)")
    elif any(e.startswith("other:") for e in events):
        raise AnalysisError(f"{where.disp}: the loop body emits {events}: not understood")
    else:
        ctx.viol("R2", "unfold_scopes/order", site, f"unfold_scopes emits {events} per scope instead of the pre-order [elem, rec]: nested functions are listed before their parent or not exactly once")


def rule_R3_both(ctx, prj):
    """R3 by evaluation of get_headers through the repo's engine; the syntactic reading of the Header(...) construction is its complement"""
    from ..absint import PyRaise, Unknown
    from .c14 import headers_evaluated
    ctx.rule("R3", "a header's name token is drawn from the tokens of the same match whose start/end form its range: get_headers "
                   "interpreted through the engine on `x f ( a ) { y g ( ) ; h ( )` names f, g, h (each the first name of its own "
                   "match, never the name before it or a parameter) with ranges (start, exclusive end) of those matches; "
                   "complemented by the syntactic reading of the Header(...) construction", floor=1)
    gh = prj.func(f"{SCU}:get_headers")
    decided = False
    try:
        res = headers_evaluated(prj)
        decided = True
        for with_follow, got, want in res:
            if with_follow == "long":
                continue        # the long follow-up is C14's clause (where the follow-up is matched from), not the name's
            what = "with the follow-up `{`" if with_follow else "without follow-up"
            if got != want:
                decided = False
                ctx.viol("R3", "get_headers/name-token", gh.site(), f"get_headers {what} gives (name, start, end) {got}; required {want}: the name is not the first name "
                         f"token of the match whose start and end form the range")
            else:
                ctx.ok("R3", gh.site(), f"get_headers {what}: {got}")
    except (Unknown, PyRaise, AnalysisError, AttributeError, KeyError) as e:
        ctx.info(f"R3: get_headers not evaluable through the engine ({type(e).__name__}: {e}); the construction is read syntactically")
    if any(v.rule == "R3" for v in ctx.violations):
        return
    ctx.complement("R3", lambda: rule_R3(ctx, prj, declare=False), decided, demote=True, by="the evaluated get_headers (R3)")


def rule_R3(ctx, prj, declare=True):
    if declare:
        ctx.rule("R3", "a header's name token is drawn from the tokens of the same match whose start/end form its range, through "
                       "a filter that is exactly is_name()", floor=1)
    gh0 = prj.func(f"{SCU}:get_headers")
    found = [(f, c) for f in with_helpers(prj, gh0) for c in f.calls() if attr_chain(c.func) == "Header" and len(c.args) + len(c.keywords) == 2]
    if not found:
        raise AnalysisError("get_headers: Header(...) construction not found")
    for gh, c in found:
        kw = {k.arg: k.value for k in c.keywords}
        a0 = c.args[0] if c.args else kw.get("name_token")
        a1 = c.args[1] if len(c.args) > 1 else kw.get("token_range")
        if a0 is None or a1 is None:
            raise AnalysisError(f"{gh.site(c)}: arguments of Header(...) not understood")
        nt = expand(gh, a0)
        rng = expand(gh, a1)
        pat = None
        if isinstance(rng, ast.Call) and attr_chain(rng.func) == "TokenRange" and len(rng.args) == 2:
            a, b = unparse(rng.args[0]), unparse(rng.args[1])
            if a.endswith(".start") and b.endswith(".end") and a[:-6] == b[:-4]:
                pat = a[:-6]
        if pat is None:
            raise AnalysisError(f"{gh.site(c)}: the header's range {unparse(rng)[:60]} is not TokenRange(<match>.start, <match>.end)")
        gen = None
        x = nt
        if isinstance(x, ast.Call) and attr_chain(x.func) == "next" and x.args:
            x = x.args[0]
            if isinstance(x, ast.Call) and attr_chain(x.func) == "iter" and len(x.args) == 1:
                x = x.args[0]
            if isinstance(x, (ast.GeneratorExp, ast.ListComp)) and len(x.generators) == 1:
                gen = x
        elif isinstance(x, ast.Subscript) and isinstance(x.slice, ast.Constant) and x.slice.value == 0 and isinstance(x.value, ast.ListComp) \
                and len(x.value.generators) == 1:
            gen = x.value
        if gen is None:
            raise AnalysisError(f"{gh.site(c)}: the name token {unparse(nt)[:60]} is not a first-match selection over a token list")
        g = gen.generators[0]
        tv = unparse(g.target)
        src = unparse(g.iter)
        conds = [unparse(x) for x in g.ifs]
        if src != f"{pat}.tokens":
            ctx.viol("R3", "get_headers/name-token", gh.site(c), f"the name token is selected from {src} while the range is ({pat}.start, {pat}.end): not a token of the same match")
        elif unparse(gen.elt) != tv:
            ctx.viol("R3", "get_headers/name-token", gh.site(c), f"the selection yields {unparse(gen.elt)[:40]}, not the token itself")
        elif conds == [f"{tv}.is_name()"]:
            ctx.ok("R3", gh.site(c), f"get_headers: name = first is_name() token of {pat}.tokens, range = ({pat}.start, {pat}.end)")
        elif all(".is_name()" not in x for x in conds):
            ctx.viol("R3", "get_headers/name-token", gh.site(c), f"the name token is the first token of the match with {conds or 'no condition'}: not the first is_name() token")
        else:
            raise AnalysisError(f"{gh.site(c)}: name-token filter {conds} not understood")


def run(ctx, prj: Project):
    ctx.explanation = (
        "Structural clauses of C05: the file total is the sum of the lengths stored with it at all three construction "
        "sites; an order typestate (ASC/DESC) through header sorting, scope construction, filtering, folding and "
        "unfolding establishes source order and that each scope is placed exactly once; the name token belongs to the "
        "header's own match; span start/end construction is shared with C01-R3. The numeric bounds (1 <= start <= end <= "
        "#lines, in-range columns, 1 <= length <= code lines of the span) are facts about run-time data and are NOT decided.")
    ctx.not_decided = ["numeric bounds on lines, columns and lengths (e.g. the end column of a body ending in a multi-line token)",
                       "pairwise distinct starts for arbitrary malformed input"]
    ctx.trust("CPython ast", "list.reverse / sorted semantics")
    rule_R1(ctx, prj)
    if not c01.rule_R5_pipeline(ctx, prj, rid="R5"):
        rule_R2(ctx, prj)
        c01.rule_R3(ctx, prj, rid="R4")
    else:
        rule_R2(ctx, prj, typestate=False)       # the sort key is decided symbolically (all positions), whatever the pipeline run shows
        ctx.floors["R2"] = 1
    rule_R3_both(ctx, prj)      # get_headers builds the Header itself: not part of the evaluated pipeline (the language object is a stub)
