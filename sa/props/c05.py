"""C05 - Every reported measurement is well-formed, for every input (structural clauses; numeric bounds not decided)."""
from __future__ import annotations

import ast

from ..core import (AnalysisError, FuncInfo, Project, attr_chain, const_int, enclosing, expand, guards_of, local_defs,
                    term, unparse)
from . import c01

SC = "codelimit.common.Scanner"
SCU = "codelimit.common.scope.scope_utils"


def rule_R1(ctx, prj):
    ctx.rule("R1", "a file's line total is the sum of its function lengths at every construction of a SourceFileEntry on "
                   "the scan and read paths: sum(.value over M) with the same M, (E.loc, E.measurements()) of the same cached "
                   "entry, or (v['loc'], list built from v['measurements']) of the same JSON object", floor=3)
    sites = [prj.func(f"{SC}:_analyze_file"), prj.func(f"{SC}:_scan_file"), prj.func("codelimit.common.report.ReportReader:ReportReader.from_json")]
    n = 0
    for fi in sites:
        for c in fi.calls():
            if attr_chain(c.func) != "SourceFileEntry" or len(c.args) < 5:
                continue
            n += 1
            loc, ms = c.args[3], c.args[4]
            lt, mt = term(fi, loc), unparse(ms)
            key = f"{fi.local}/SourceFileEntry"
            ok = False
            if lt.replace(" ", "") in (f"sum([m.valueformin{mt}])", f"sum(m.valueformin{mt})"):
                ok = True
            elif lt.endswith(".loc") and mt == lt[:-4] + ".measurements()":
                ok = True
            elif lt.endswith("['loc']"):
                base = lt[: -len("['loc']")]
                # measurements list is filled from base['measurements'] in this function
                loops = [l for l in fi.walk() if isinstance(l, ast.For) and unparse(l.iter) == f"{base}['measurements']"]
                apps = [a for l in loops for a in ast.walk(l) if isinstance(a, ast.Call) and isinstance(a.func, ast.Attribute)
                        and a.func.attr == "append" and unparse(a.func.value) == mt]
                comp = any(isinstance(v, ast.ListComp) and unparse(v.generators[0].iter) == f"{base}['measurements']" for v, _ in local_defs(fi, mt) if v is not None)
                ok = bool(apps) or comp
            if ok:
                ctx.ok("R1", fi.site(c), f"{key}: loc = {lt[:50]} belongs to measurements {mt}")
            else:
                ctx.viol("R1", key, fi.site(c), f"the entry's line total is {lt[:70]} while its measurements are {mt}: the total is not the sum of the lengths stored with it")
    if n < 3:
        raise AnalysisError(f"only {n} SourceFileEntry constructions found on the scan/read paths (3 confirmed by reading)")


def _sort_key_is_position(fi: FuncInfo, call: ast.Call, elem_attr: str) -> str:
    """sorted(..., key=lambda h: (line, column)) of tokens[h.<elem_attr>].location -> 'ok' | reason"""
    kw = {k.arg: k.value for k in call.keywords}
    key = kw.get("key")
    if isinstance(key, ast.Name) and key.id in fi.nested:
        sub = fi.nested[key.id]
        rets = [r for r in sub.walk() if isinstance(r, ast.Return) and r.value is not None]
        if len(rets) != 1:
            return "key function with several returns"
        body = expand(sub, rets[0].value)
        p = sub.params()[0]
    elif isinstance(key, ast.Lambda):
        body = key.body
        p = key.args.args[0].arg
    else:
        return "no key function"
    if isinstance(body, ast.Tuple) and len(body.elts) == 2:
        a, b = unparse(body.elts[0]), unparse(body.elts[1])
        if a.endswith(".location.line") and b.endswith(".location.column") and a[: -len(".line")] == b[: -len(".column")] and f"{p}.{elem_attr}" in a:
            return "ok"
        return f"key is ({a}, {b})"
    if isinstance(body, ast.Attribute) and body.attr == "location":
        return "key is a Location (not orderable)"
    return f"key `{unparse(body)[:70]}` is not the pair (line, column) of the item's first token: items whose packed keys collide or overflow are mis-ordered"


def rule_R2(ctx, prj):
    ctx.rule("R2", "measurements come out in source order: headers are sorted by the (line, column) pair of their first "
                   "token, scopes are built from the reversed order and re-reversed (order typestate ASC at the end), the "
                   "marker filter and nesting only select/regroup, fold_scopes puts every scope in exactly one place, and "
                   "unfold_scopes is a pre-order walk", floor=5)
    sh = prj.func("codelimit.common.scope.Header:sort_headers")
    calls = [c for c in sh.calls() if attr_chain(c.func) == "sorted"]
    if len(calls) != 1:
        raise AnalysisError("sort_headers: sorted(...) call not found")
    r = _sort_key_is_position(sh, calls[0], "token_range.start")
    rev = {k.arg: k.value for k in calls[0].keywords}.get("reverse")
    if r == "ok" and rev is not None and unparse(rev) == "reverse":
        ctx.ok("R2", sh.site(calls[0]), "sort_headers: sorted by (line, column) of tokens[h.token_range.start], direction = reverse parameter")
    elif r != "ok":
        ctx.viol("R2", "sort_headers/key", sh.site(calls[0]), f"sort_headers: {r}")
    else:
        ctx.viol("R2", "sort_headers/direction", sh.site(calls[0]), f"sort_headers ignores its reverse parameter (reverse={unparse(rev) if rev is not None else 'absent'})")
    # order typestate in _build_scopes_from_headers_and_blocks
    b = prj.func(f"{SCU}:_build_scopes_from_headers_and_blocks")
    state = None
    src = None
    for n in b.walk():
        if isinstance(n, ast.Assign) and isinstance(n.value, ast.Call) and prj.resolve_callee_name(b, n.value).endswith(":sort_headers"):
            kw = {k.arg: k.value for k in n.value.keywords}
            rv = kw.get("reverse")
            if len(n.value.args) > 2:
                rv = n.value.args[2]
            d = "DESC" if isinstance(rv, ast.Constant) and rv.value is True else "ASC" if rv is None or (isinstance(rv, ast.Constant) and rv.value is False) else "?"
            src = (unparse(n.targets[0]), d)
    if src is None:
        ctx.viol("R2", "_build_scopes/unsorted", b.site(), "headers are not sorted by position before scopes are built: JavaScript/TypeScript results (functions + arrow functions) come out grouped by kind, not in source order")
    else:
        loops = [l for l in b.walk() if isinstance(l, ast.For) and unparse(l.iter) == src[0]]
        if not loops:
            ctx.viol("R2", "_build_scopes/iteration", b.site(), f"the sorted header list {src[0]} is not the one iterated")
        else:
            state = src[1]
            appends = [c for c in ast.walk(loops[0]) if isinstance(c, ast.Call) and isinstance(c.func, ast.Attribute) and c.func.attr in ("append", "insert")]
            for c in appends:
                if c.func.attr == "insert" and unparse(c.func.value) == "result":
                    state = "ASC" if state == "DESC" else "DESC"
            for st in b.node.body:
                if isinstance(st, ast.Expr) and isinstance(st.value, ast.Call) and isinstance(st.value.func, ast.Attribute) and st.value.func.attr == "reverse" \
                        and unparse(st.value.func.value) == "result" and st.lineno > loops[0].lineno:
                    state = "ASC" if state == "DESC" else "DESC"
            rets = [r for r in b.walk() if isinstance(r, ast.Return) and r.value is not None]
            for r in rets:
                t = unparse(r.value)
                if t.endswith("[::-1]") or t.startswith("list(reversed("):
                    state = "ASC" if state == "DESC" else "DESC"
            if state == "ASC":
                ctx.ok("R2", b.site(), f"_build_scopes_from_headers_and_blocks: headers {src[1]}, result order typestate ASC at return")
            else:
                ctx.viol("R2", "_build_scopes/order", b.site(), f"scopes are returned in {state} order of their header position (headers sorted {src[1]}, reversals do not restore ascending order): measurements come out in reverse source order")
    # fold_scopes: exactly one placement per scope, no recursion / second pass
    fo = prj.func(f"{SCU}:fold_scopes")
    loops = [l for l in fo.node.body if isinstance(l, ast.For)]
    rec = [c for c in fo.calls() if fo in prj.resolve_call(fo, c)[0]]
    if len(loops) == 1 and not rec:
        from ..paths import enumerate_paths
        try:
            paths = enumerate_paths(loops[0].body)
        except AnalysisError:
            paths = None
        good = True
        if paths is not None:
            for p in paths:
                pass
        apps = [c for c in ast.walk(loops[0]) if isinstance(c, ast.Call) and isinstance(c.func, ast.Attribute) and c.func.attr == "append"]
        # each append sits in a different, mutually exclusive branch
        branches = set()
        for c in apps:
            ifs = enclosing(fo, c, ast.If)
            sig = tuple((id(i), "b" if any(x is c for s in i.body for x in ast.walk(s)) else "e") for i in ifs)
            branches.add(sig)
        if len(branches) == len(apps) and all(unparse(c.args[0]) == unparse(loops[0].target) for c in apps):
            ctx.ok("R2", fo.site(), f"fold_scopes: one pass, each scope appended in exactly one of {len(apps)} exclusive branches")
        else:
            ctx.viol("R2", "fold_scopes/placement", fo.site(), "fold_scopes can place a scope in more than one list")
    else:
        why = "calls itself" if rec else f"has {len(loops)} top-level loops"
        ctx.viol("R2", "fold_scopes/second-pass", fo.site(rec[0]) if rec else fo.site(),
                 f"fold_scopes {why}: a scope that was already placed under its parent is placed again further down (grandchildren end up both in the "
                 f"parent's and in the child's children), so unfold_scopes reports it twice - equal starts, length counted twice in the file total")
    un = prj.func(f"{SCU}:unfold_scopes")
    lp = [l for l in un.node.body if isinstance(l, ast.For)]
    ok = False
    if len(lp) == 1:
        body = lp[0].body
        kinds = [unparse(s) for s in body]
        v = unparse(lp[0].target)
        ok = len(body) == 2 and kinds[0] == f"result.append({v})" and kinds[1] == f"result.extend(unfold_scopes({v}.children))"
    if ok:
        ctx.ok("R2", un.site(), "unfold_scopes: pre-order (scope, then its children)")
    else:
        ctx.viol("R2", "unfold_scopes/order", un.site(), "unfold_scopes is not the pre-order walk `append(scope); extend(unfold_scopes(scope.children))`: nested functions are listed before their parent or not exactly once")
    # the nocl filter and filter_scopes_nested_functions preserve order: comprehension / single-append loops
    for q in (f"{SCU}:_filter_nocl_scopes", f"{SCU}:filter_scopes_nested_functions"):
        f = prj.func(q)
        bad = [c for c in f.calls() if (attr_chain(c.func) or "").split(".")[-1] in ("sorted", "reversed", "sort", "reverse", "insert")]
        if bad:
            ctx.viol("R2", f"{f.local}/reorders", f.site(bad[0]), f"{f.local} reorders scopes: {unparse(bad[0])[:50]}")
        else:
            ctx.ok("R2", f.site(), f"{f.local}: selects without reordering")


def rule_R3(ctx, prj):
    ctx.rule("R3", "a header's name token is drawn from the tokens of the same match whose start/end form its range, through "
                   "a filter that is exactly is_name()", floor=1)
    gh = prj.func(f"{SCU}:get_headers")
    hs = [c for c in gh.calls() if attr_chain(c.func) == "Header" and len(c.args) == 2]
    if not hs:
        raise AnalysisError("get_headers: Header(...) construction not found")
    for c in hs:
        nt = expand(gh, c.args[0])
        rng = c.args[1]
        pat = None
        if isinstance(rng, ast.Call) and attr_chain(rng.func) == "TokenRange" and len(rng.args) == 2:
            a, b = unparse(rng.args[0]), unparse(rng.args[1])
            if a.endswith(".start") and b.endswith(".end") and a[:-6] == b[:-4]:
                pat = a[:-6]
        ok = False
        if pat and isinstance(nt, ast.Call) and attr_chain(nt.func) == "next" and nt.args and isinstance(nt.args[0], ast.GeneratorExp):
            g = nt.args[0]
            gen = g.generators[0]
            cond = [unparse(x) for x in gen.ifs]
            ok = unparse(gen.iter) == f"{pat}.tokens" and cond == [f"{unparse(gen.target)}.is_name()"] and unparse(g.elt) == unparse(gen.target)
        if ok:
            ctx.ok("R3", gh.site(c), f"get_headers: name = first is_name() token of {pat}.tokens, range = ({pat}.start, {pat}.end)")
        else:
            ctx.viol("R3", "get_headers/name-token", gh.site(c), f"the name token is {unparse(nt)[:80]} with range {unparse(rng)[:50]}: not the first is_name() token of the same match")


def run(ctx, prj: Project):
    ctx.explanation = (
        "Structural clauses of C05: the file total is the sum of the lengths stored with it at all three construction "
        "sites; an order typestate (ASC/DESC) through header sorting, scope construction, filtering, folding and "
        "unfolding establishes source order and that each scope is placed exactly once; the name token belongs to the "
        "header's own match; span start/end construction is shared with C01-R3. The numeric bounds (1 <= start <= end <= "
        "#lines, in-range columns, 1 <= length <= code lines of the span) are facts about run-time data and are NOT decided.")
    ctx.not_decided = ["numeric bounds on lines, columns and lengths (e.g. the end column of a body ending in a multi-line token)",
                       "pairwise distinct starts for arbitrary malformed input"]
    ctx.trust("CPython ast", "list.reverse / sorted semantics")
    rule_R1(ctx, prj)
    rule_R2(ctx, prj)
    rule_R3(ctx, prj)
    c01.rule_R3(ctx, prj, rid="R4")
