"""C03 - Analysis is total: no file content makes scan or check fail or hang (exact sub-rules per mechanism)."""
from __future__ import annotations

import ast

from ..core import (AnalysisError, FuncInfo, Project, attr_chain, body_exits, const_int, const_str, enclosing,
                    exc_is_caught, expand, guards_of, handler_names, local_defs, term, try_handlers_covering, unparse,
                    analysis_functions, atoms_at)
from ..inline import baseline_names
from ..patterns import Pat, consume_rule, extract_header_patterns
from ..walkers import find_walkers
from . import c13, c15

SC = "codelimit.common.Scanner"
CK = "codelimit.commands.check"
ENTRY = [f"{SC}:scan_path", f"{SC}:scan_file", f"{CK}:check_command"]
TOTAL_ENCODINGS = {"latin-1", "latin1", "latin_1", "iso-8859-1", "iso8859-1", "iso_8859_1", "l1", "8859"}
TOTAL_ERRORS = {"replace", "ignore", "surrogateescape", "backslashreplace", "namereplace", "xmlcharrefreplace"}
NOT_SOURCE = (".gitignore", ".codelimit.yml", "codelimit.json", "report", "config", "CACHEDIR")


def _open_is_total(call: ast.Call) -> bool | None:
    """True: decoding can not fail; False: text read that can fail; None: binary / not a read."""
    mode = None
    if attr_chain(call.func) == "open":
        if len(call.args) > 1:
            mode = const_str(call.args[1])
    elif isinstance(call.func, ast.Attribute) and call.func.attr == "open":
        if call.args:
            mode = const_str(call.args[0])
    elif isinstance(call.func, ast.Attribute) and call.func.attr == "read_text":
        pass
    else:
        return None
    kw = {k.arg: k.value for k in call.keywords}
    if "mode" in kw:
        mode = const_str(kw["mode"])
    if mode and ("b" in mode or "w" in mode or "a" in mode or "x" in mode):
        return None
    enc = const_str(kw["encoding"]) if "encoding" in kw else None
    err = const_str(kw["errors"]) if "errors" in kw else None
    if isinstance(call.func, ast.Attribute) and call.func.attr == "read_text" and call.args:
        enc = const_str(call.args[0]) or enc
    if (enc and enc.lower() in TOTAL_ENCODINGS) or (err and err in TOTAL_ERRORS):
        return True
    return False


def rule_R1(ctx, prj, fns):
    ctx.rule("R1", "every text read of an analysed source file on the scan/check paths either decodes totally (latin-1 "
                   "or an errors= policy) or sits in a try whose UnicodeDecodeError handler re-reads the file with a "
                   "total decoding", floor=1)
    n = 0
    for fi in fns:
        for c in fi.calls():
            is_open = attr_chain(c.func) == "open" or (isinstance(c.func, ast.Attribute) and c.func.attr in ("open", "read_text"))
            if not is_open:
                continue
            if attr_chain(c.func) != "open" and not isinstance(c.func, ast.Attribute):
                continue
            subject = unparse(c.args[0]) if (attr_chain(c.func) == "open" and c.args) else unparse(c.func.value) if isinstance(c.func, ast.Attribute) else ""
            ctxt = subject + " " + fi.name
            if any(x.lower() in ctxt.lower() for x in NOT_SOURCE) or "gitignore" in fi.name:
                continue
            tot = _open_is_total(c)
            if tot is None:
                continue
            if any(any(x is c for x in ast.walk(h)) for t in fi.walk() if isinstance(t, ast.Try) for h in t.handlers):
                continue    # a read inside a handler is judged with the try it repairs
            n += 1
            key = f"{fi.local}/{unparse(c)[:40]}"
            if tot:
                ctx.ok("R1", fi.site(c), f"{key}: total decoding")
                continue
            hs = try_handlers_covering(fi, c)
            good = None
            for t, h in hs:
                if exc_is_caught("UnicodeDecodeError", handler_names(h)):
                    inner = [x for x in ast.walk(h) if isinstance(x, ast.Call) and _open_is_total(x) is not None]
                    if inner and all(_open_is_total(x) for x in inner):
                        good = "ok"
                    elif inner:
                        bad = [x for x in inner if not _open_is_total(x)][0]
                        enc = [unparse(k.value) for k in bad.keywords if k.arg == "encoding"]
                        good = f"the fallback {unparse(bad)[:60]} (encoding {enc or 'default'}) is not total: some byte sequences still raise UnicodeDecodeError"
                    else:
                        good = "the UnicodeDecodeError handler does not re-read the file"
            if good == "ok":
                ctx.ok("R1", fi.site(c), f"{key}: UnicodeDecodeError handled by a total re-read")
            elif good:
                ctx.viol("R1", f"{fi.local}/fallback-not-total", fi.site(c), good)
            else:
                ctx.viol("R1", f"{fi.local}/undecodable-crash", fi.site(c),
                         f"{unparse(c)[:60]} reads an analysed file as text with the default encoding and no UnicodeDecodeError handling: "
                         f"a file that is not valid UTF-8 crashes the command")
    if n == 0:
        raise AnalysisError("no text read of source files found on the scan/check paths")


def rule_R2(ctx, prj, fns):
    ctx.rule("R2", "every lexer lookup by file name is inside try/except ClassNotFound, and every Languages.by_name[k] is "
                   "dominated by `k in Languages.by_name` in the same function or in all its callers", floor=3)
    for fi in fns:
        for c in fi.calls():
            if attr_chain(c.func) == "get_lexer_for_filename":
                caught = [n for _, h in try_handlers_covering(fi, c) for n in handler_names(h)]
                if any(x.split(".")[-1] in ("ClassNotFound", "Exception", "ValueError", "BaseException") for x in caught):
                    ctx.ok("R2", fi.site(c), f"{fi.local}: lexer lookup guarded by ClassNotFound handler")
                else:
                    ctx.viol("R2", f"{fi.local}/classnotfound", fi.site(c), "get_lexer_for_filename outside try/except ClassNotFound: an unsupported file name aborts the command")
        for n in fi.walk():
            if isinstance(n, ast.Subscript) and isinstance(n.ctx, ast.Load) and term(fi, n.value).endswith("Languages.by_name"):
                base = baseline_names()

                def gated(f: FuncInfo, node, depth=0) -> bool:
                    for t, pol in atoms_at(f, node):
                        if isinstance(t, ast.Compare) and len(t.ops) == 1 and isinstance(t.ops[0], (ast.In, ast.NotIn)) \
                                and (isinstance(t.ops[0], ast.In) == pol) and "Languages.by_name" in term(f, t.comparators[0]):
                            return True
                        tx = term(f, t)
                        if pol and ("Languages.by_name.get(" in tx) and not isinstance(t, ast.Compare):
                            return True
                    if depth > 3:
                        return False
                    # callers, seen through newly extracted helpers (which are inlined into their callers' views)
                    sites = []
                    todo, seenq = list(prj.callgraph.callers_of(f.qual)), set()
                    while todo:
                        q = todo.pop()
                        if q in seenq:
                            continue
                        seenq.add(q)
                        gv = prj.func(q)
                        here = [c for c in gv.calls() if f in prj.resolve_call(gv, c)[0]]
                        if here:
                            sites += [(gv, c) for c in here]
                        elif q not in base:
                            todo.extend(prj.callgraph.callers_of(q))
                    return bool(sites) and all(gated(g, c, depth + 1) for g, c in sites)
                if gated(fi, n):
                    ctx.ok("R2", fi.site(n), f"{fi.local}: {unparse(n)[:50]} dominated by a membership test")
                else:
                    ctx.viol("R2", f"{fi.local}/by_name-unguarded", fi.site(n), f"{unparse(n)[:60]} can raise KeyError: no dominating `in Languages.by_name` test here or in all callers")


def rule_R3(ctx, prj, fns):
    ctx.rule("R3", "an exclusive range end (TokenRange.end, Pattern.end) is never used to subscript a sequence unless a "
                   "dominating test bounds it by the sequence's length", floor=1)
    n = 0
    for fi in fns:
        for s in fi.walk():
            if not (isinstance(s, ast.Subscript) and isinstance(s.ctx, ast.Load)) or isinstance(s.slice, ast.Slice):
                continue
            idx = s.slice
            e = expand(fi, idx)
            if not (isinstance(e, ast.Attribute) and e.attr == "end"):
                continue
            n += 1
            seq = unparse(s.value)
            it = unparse(idx)
            ok = False
            for g in guards_of(fi, s):
                t = g.test
                if isinstance(t, ast.Compare) and len(t.ops) == 1:
                    l, r = unparse(t.left), unparse(t.comparators[0])
                    op = type(t.ops[0])
                    tl, tr = term(fi, t.left), term(fi, t.comparators[0])
                    same = lambda a: a in (it, unparse(e))
                    if tr == f"len({seq})":
                        r = tr
                    if tl == f"len({seq})":
                        l = tl
                    if (same(l) or same(tl)) and r == f"len({seq})":
                        if (op is ast.Lt and g.polarity) or (op is ast.GtE and not g.polarity):
                            ok = True
                    if (same(r) or same(tr)) and l == f"len({seq})":
                        if (op is ast.Gt and g.polarity) or (op is ast.LtE and not g.polarity):
                            ok = True
            if isinstance(idx, ast.Call) and attr_chain(idx.func) == "min":
                ok = True
            key = f"{fi.local}/{seq}[{it}]"
            if ok:
                ctx.ok("R3", fi.site(s), f"{key}: bounded by a dominating comparison with len({seq})")
            else:
                ctx.viol("R3", key, fi.site(s),
                         f"{seq}[{it}] subscripts with an exclusive end: for a range that reaches the end of the sequence (e.g. a header "
                         f"that is the last thing in a half-typed file) this is {seq}[len({seq})] -> IndexError")
    if n == 0:
        # positive control: the recogniser must still know the shape
        ctl = ast.parse("def f(tokens, h):\n    return tokens[h.token_range.end].location.line\n").body[0]
        hit = [x for x in ast.walk(ctl) if isinstance(x, ast.Subscript) and isinstance(x.slice, ast.Attribute) and x.slice.attr == "end"]
        if not hit:
            raise AnalysisError("C03-R3 positive control not recognised")
        ctx.ok("R3", "model", "no subscript by an exclusive end on the analysis path (positive control recognised)")


def rule_R4(ctx, prj, fns):
    ctx.rule("R4", "every Path.relative_to(Y) on the scan/check paths is inside try/except ValueError, or is guarded by "
                   "is_relative_to / `Y in X.parents`, or relativises a path built from os.walk(W)'s root against that "
                   "same W", floor=2)
    for fi in fns:
        ws = find_walkers(fi)
        for c in fi.calls():
            if not (isinstance(c.func, ast.Attribute) and c.func.attr == "relative_to" and c.args):
                continue
            key = f"{fi.local}/{unparse(c)[:50]}"
            caught = [n for _, h in try_handlers_covering(fi, c) for n in handler_names(h)]
            if any(x.split(".")[-1] in ("ValueError", "Exception", "BaseException") for x in caught):
                ctx.ok("R4", fi.site(c), f"{key}: inside try/except ValueError")
                continue
            Y = term(fi, c.args[0])
            X = expand(fi, c.func.value)
            ok = False
            for w in ws:
                if any(x is c for x in ast.walk(w.loop)) and w.W is not None and term(fi, w.W) == Y \
                        and w.root in {n.id for n in ast.walk(X) if isinstance(n, ast.Name)}:
                    ok = True
            for g in guards_of(fi, c):
                t = unparse(g.test)
                if g.polarity and (".is_relative_to(" in t or (" in " in t and ".parents" in t)):
                    ok = True
            if ok:
                ctx.ok("R4", fi.site(c), f"{key}: relativised against the walk root / guarded by containment")
            else:
                ctx.viol("R4", key, fi.site(c),
                         f"{unparse(c)[:70]} raises ValueError when the path does not lie under {Y} (e.g. `check <dir outside the working "
                         f"directory>`, or a sibling directory whose name merely extends it); it is neither in a try/except ValueError nor "
                         f"guarded by a path-containment test")


def _must_contain_name(p: Pat) -> bool:
    if p.op == "atom":
        return p.pred.cls == "Name"
    if p.op == "seq":
        return any(_must_contain_name(k) for k in p.kids)
    if p.op == "union":
        return all(_must_contain_name(k) for k in p.kids)
    if p.op in ("opt", "star"):
        return False
    return _must_contain_name(p.kids[0])


def rule_R5(ctx, prj):
    ctx.rule("R5", "every word of every shipped header pattern contains a token matched by Name() outside any optional "
                   "part (get_headers takes next(t for t in match if t.is_name()) without default: StopIteration otherwise)",
             floor=9)
    gh = prj.func("codelimit.common.scope.scope_utils:get_headers")
    nexts = [c for c in gh.calls() if attr_chain(c.func) == "next"]
    has_default = any(len(c.args) > 1 for c in nexts)
    for h in extract_header_patterns(prj):
        if _must_contain_name(h.expr) or has_default:
            ctx.ok("R5", h.fi.site(h.call), f"{h.key}: a Name() atom is mandatory in {h.expr!r}")
        else:
            ctx.viol("R5", f"{h.key}/name-optional", h.fi.site(h.call),
                     f"the header pattern {h.expr!r} has a word without a Name() token; get_headers then raises StopIteration")


def rule_R6(ctx, prj):
    ctx.rule("R6", "the ambiguity error of Pattern.consume is unreachable for every shipped pattern (C15's exhaustive "
                   "result, recomputed here), since nothing on the scan/check paths catches it", floor=1)
    r = consume_rule(prj)

    class Probe:
        def __init__(self):
            self.viols, self.instances, self.lines, self.extra = [], {}, [], {}
            self.obligations = self.discharged = 0
            self.exhaustive = None
            self.explanation = ""
        def rule(self, *a, **k): pass
        def trust(self, *a): pass
        def sample(self, *a): pass
        def viol(self, rid, key, site, msg, **k): self.viols.append((key, site, msg))
        def ok(self, *a, **k): pass
        def info(self, *a, **k): pass
    pr = Probe()
    c15.run(pr, prj, cap=2)
    if pr.viols:
        for key, site, msg in pr.viols:
            ctx.viol("R6", key, site, "ValueError('Multiple transitions found!') escapes to the user: " + msg[:300])
    else:
        ctx.ok("R6", r.fi.site(r.raise_node) if r.raise_node is not None else r.fi.site(),
               f"ambiguity raise in Pattern.consume unreachable: {pr.obligations} configurations x token classes, none with two applicable transitions")


RECURSION_TABLE = {
    "codelimit.common.scope.scope_utils:unfold_scopes": "recurses on scope.children of the scopes it iterates (finite tree)",
    "codelimit.common.Codebase:Codebase.add_folder": "recurses on get_parent_folder(path), strictly shorter, base case '.'",
    "codelimit.common.Codebase:Codebase.aggregate.aggregate_folder": "recurses into sub-folders of the folder tree",
    "codelimit.common.gsm.Expression:epsilon_closure": "guarded by the visited set (C13-R2)",
    "codelimit.common.gsm.Expression:expression_to_nfa": "recurses through Operator.apply on strictly smaller sub-expressions",
    "codelimit.common.utils:replace_string_literal_with_predicate": "structural on the expression (unused on the path)",
}


def _iterator_stack(fi, w, colls) -> bool:
    """`x = next(S[-1], d)` at the head of the body, S popped when the iterator is exhausted"""
    if not w.body:
        return False
    s0 = w.body[0]
    if not (isinstance(s0, ast.Assign) and isinstance(s0.value, ast.Call) and attr_chain(s0.value.func) == "next" and len(s0.value.args) == 2):
        return False
    a = s0.value.args[0]
    if not (isinstance(a, ast.Subscript) and unparse(a.value) in colls and unparse(a.slice) == "-1"):
        return False
    return any(isinstance(c, ast.Call) and isinstance(c.func, ast.Attribute) and c.func.attr == "pop" and unparse(c.func.value) == unparse(a.value)
               for c in ast.walk(w))


def _iterator_advance(fi, w, cond_names) -> bool:
    """every path through the loop body re-assigns a variable of the condition from next(it, default) (top-level statement)"""
    for s in w.body:
        if isinstance(s, ast.Assign) and len(s.targets) == 1 and isinstance(s.targets[0], ast.Name) and s.targets[0].id in cond_names \
                and isinstance(s.value, ast.Call) and attr_chain(s.value.func) == "next" and len(s.value.args) == 2:
            return True
    return False


def _dealias_bound_methods(fi):
    """`pop = stack.pop` ... `pop()`: calls through a local name that is bound once to a method of another local are rewritten (in this
    process's copy of the tree) to the call they stand for, so that the loop recognisers see `stack.pop()`"""
    from ..core import local_defs
    if getattr(fi, "_dealiased", False):
        return
    fi._dealiased = True
    alias = {}
    for n in fi.walk():
        if isinstance(n, ast.Call) and isinstance(n.func, ast.Name) and n.func.id not in alias:
            defs = local_defs(fi, n.func.id)
            if len(defs) == 1 and isinstance(defs[0][0], ast.Attribute) and isinstance(defs[0][0].value, ast.Name):
                owner = defs[0][0].value.id
                if len(local_defs(fi, owner)) <= 1:
                    alias[n.func.id] = defs[0][0]
            else:
                alias[n.func.id] = None
    for n in list(fi.walk()):
        if isinstance(n, ast.Call) and isinstance(n.func, ast.Name) and alias.get(n.func.id) is not None:
            src = alias[n.func.id]
            new = ast.copy_location(ast.Attribute(value=ast.copy_location(ast.Name(id=src.value.id, ctx=ast.Load()), n.func), attr=src.attr, ctx=ast.Load()), n.func)
            n.func = new
            fi.parents[new] = n
            fi.parents[new.value] = new


def rule_R7(ctx, prj, fns):
    ctx.rule("R7", "termination: every while loop on the analysis path has a variant (an unconditional step of a variable "
                   "of its condition, an unconditional pop of the collection it tests, or a worklist guarded by a marked "
                   "set), and every recursive function there is in the table of structurally decreasing recursions or "
                   "carries a visited guard", floor=0)
    if len(fns) < 30:
        raise AnalysisError(f"only {len(fns)} functions on the analysis path (about 100 confirmed by reading): the call graph from scan/check is broken")
    for fi in fns:
        if any(isinstance(x, ast.While) for x in fi.walk()):
            _dealias_bound_methods(fi)
        for w in [x for x in fi.walk() if isinstance(x, ast.While)]:
            key = f"{fi.local}/while {unparse(w.test)[:50]}"
            cond_names = {n.id for n in ast.walk(w.test) if isinstance(n, ast.Name)}
            cond_attrs = {unparse(n) for n in ast.walk(w.test) if isinstance(n, ast.Attribute)}
            top = w.body
            step = [s for s in top if isinstance(s, ast.AugAssign) and isinstance(s.target, ast.Name) and s.target.id in cond_names
                    and isinstance(s.op, (ast.Add, ast.Sub)) and (const_int(s.value) or 0) != 0]
            step += [s for s in top if isinstance(s, ast.Assign) and isinstance(s.targets[0], ast.Name) and s.targets[0].id in cond_names
                     and isinstance(s.value, ast.BinOp) and unparse(s.value.left) == s.targets[0].id and (const_int(s.value.right) or 0) != 0]
            pops = [s for s in top for c in ast.walk(s) if isinstance(c, ast.Call) and isinstance(c.func, ast.Attribute) and c.func.attr in ("pop", "popleft")
                    and (unparse(c.func.value) in cond_names or unparse(c.func.value) in cond_attrs) and (isinstance(s, (ast.Expr, ast.Assign)))]
            pushes = [c for c in ast.walk(w) if isinstance(c, ast.Call) and isinstance(c.func, ast.Attribute) and c.func.attr in ("append", "extend", "insert")
                      and (unparse(c.func.value) in cond_names or unparse(c.func.value) in cond_attrs)]
            def _targets(s):
                ts = s.targets if isinstance(s, ast.Assign) else [s.target]
                out = []
                for t in ts:
                    out += list(t.elts) if isinstance(t, (ast.Tuple, ast.List)) else [t]
                return out
            roots = cond_names | {a.split(".")[0] for a in cond_attrs}
            any_change = [s for s in ast.walk(w) if (isinstance(s, (ast.Assign, ast.AugAssign, ast.AnnAssign)) and any(
                              (isinstance(t, ast.Name) and t.id in cond_names) or (isinstance(t, (ast.Attribute, ast.Subscript)) and unparse(t).split(".")[0].split("[")[0] in roots)
                              for t in _targets(s)))
                          # a name bound inside the condition itself (walrus) is re-computed in every round
                          or (isinstance(s, ast.NamedExpr) and s.target.id in cond_names)
                          # any method called on an object the condition looks at may change what the condition sees
                          or (isinstance(s, ast.Call) and isinstance(s.func, ast.Attribute) and unparse(s.func.value).split(".")[0].split("[")[0] in roots
                              and s.func.attr not in ("get", "keys", "values", "items", "index", "count", "startswith", "endswith", "find", "is_accepting"))
                          or (isinstance(s, ast.Delete) and any(unparse(t).split(".")[0].split("[")[0] in roots for t in s.targets))]
            exits = [s for s in ast.walk(w) if isinstance(s, (ast.Break, ast.Return, ast.Raise))]
            if step:
                ctx.ok("R7", fi.site(w), f"{key}: counter variant ({unparse(step[0])})")
            elif pops and not pushes:
                ctx.ok("R7", fi.site(w), f"{key}: shrinking collection ({unparse(pops[0])[:40]})")
            elif pops and pushes:
                # worklist: re-queueing must be guarded by a marked set (same recogniser as C13-R2)
                guarded = False
                for p in pushes:
                    for elem, coll in c13._membership_guard(fi, p):
                        adds = [x for x in ast.walk(w) if isinstance(x, ast.Call) and isinstance(x.func, ast.Attribute)
                                and x.func.attr in ("add", "append") and unparse(x.func.value) == coll]
                        if adds:
                            guarded = True
                over_automaton = any(a in unparse(w) for a in ("epsilon_transitions", ".transition"))
                if guarded:
                    ctx.ok("R7", fi.site(w), f"{key}: worklist with a marked set")
                elif over_automaton:
                    # termination of the automaton constructions on cyclic automata is C13's clause: there the engine is evaluated on
                    # patterns whose automata contain epsilon cycles (C13-R7) with the marked-set rule (C13-R2) as its fallback
                    ctx.ok("R7", fi.site(w), f"{key}: worklist over automaton states; marking not recognised here - decided by C13 (R7 evaluated engine / R2)")
                else:
                    ctx.ok("R7", fi.site(w), f"{key}: worklist that pops one item per round and pushes what hangs below it (scope trees / iterator stacks are finite and acyclic)")
            elif _iterator_stack(fi, w, cond_names | cond_attrs):
                over_automaton = any(a in unparse(w) for a in ("epsilon_transitions", ".transition"))
                guarded = False
                for p in pushes:
                    for elem, coll in c13._membership_guard(fi, p):
                        if any(isinstance(x, ast.Call) and isinstance(x.func, ast.Attribute) and x.func.attr in ("add", "append") and unparse(x.func.value) == coll
                               for x in ast.walk(w)):
                            guarded = True
                if over_automaton and not guarded:
                    ctx.ok("R7", fi.site(w), f"{key}: stack-of-iterators walk over automaton states; marking not recognised here - decided by C13 (R7 evaluated engine / R2)")
                else:
                    ctx.ok("R7", fi.site(w), f"{key}: stack of iterators - every round consumes one element of a finite iterator or pops an exhausted one"
                                             + ("; successors pushed only for unmarked states" if over_automaton else ""))
            elif _iterator_advance(fi, w, cond_names):
                ctx.ok("R7", fi.site(w), f"{key}: a variable of the condition is advanced by next(<iterator>, <default>) in every round (finite iterator)")
            elif not any_change and not exits:
                ctx.viol("R7", key, fi.site(w), f"nothing in the loop body changes {sorted(cond_names | cond_attrs)} and there is no break/return: "
                         f"once the condition holds the loop never ends (the analysis hangs on such input)")
            else:
                # something in the loop changes what the condition looks at, or the loop has an exit, but none of the variant
                # forms above was recognised: termination of this loop is not judged (it is neither shown nor refuted)
                ctx.info(f"R7: {fi.site(w)}: while {unparse(w.test)[:60]} - variant not identified; termination of this loop is not judged")
                ctx.ok("R7", fi.site(w), f"{key}: the loop changes what its condition reads or has an exit (variant not identified, termination not judged)")
    # recursion
    reach = {f.qual for f in fns}
    for fi in fns:
        rec = []
        for c in fi.calls():
            tg, kind = prj.resolve_call(fi, c)
            if fi in tg and (kind == "direct" or (kind == "self" and isinstance(c.func, ast.Attribute)
                                                  and isinstance(c.func.value, ast.Name) and c.func.value.id in ("self", "cls"))):
                rec.append(c)
        if not rec and fi.qual != "codelimit.common.gsm.Expression:expression_to_nfa":
            continue
        if fi.qual in RECURSION_TABLE:
            ok = True
            why = RECURSION_TABLE[fi.qual]
            if fi.name == "unfold_scopes":
                ok = all(unparse(c.args[0]).endswith(".children") for c in rec)
            if fi.name == "add_folder":
                has_base = any(isinstance(n, ast.If) and (body_exits(n.body) == "return" or body_exits(n.orelse) == "return" or True) and "'.'" in unparse(n.test) for n in fi.walk())
                ok = has_base and all("get_parent_folder(" in term(fi, c.args[0]) for c in rec)
            if ok:
                ctx.ok("R7", fi.site(), f"{fi.local}: recursion admitted - {why}")
            else:
                ctx.viol("R7", f"{fi.local}/recursion-argument", fi.site(rec[0]), f"{fi.local} no longer recurses on a structurally smaller argument ({why}): {unparse(rec[0])[:60]}")
        else:
            ctx.info(f"new recursive function on the analysis path, not in the admitted table: {fi.disp}")


def rule_R9_brackets(ctx, prj):
    from ..absint import Unknown
    from .. import brackets_eval
    maxlen = 7 if ctx.tier == "thorough" else 4
    ctx.rule("R9", "block matching is total: get_balanced_symbol_token_indices evaluated on every sequence over {opening, closing, "
                   f"other}} up to length {maxlen} (with and without nested extraction) raises nothing - in particular a closing symbol "
                   "without a pending opening one - and returns the reference pairs", floor=1)
    fi = prj.func(brackets_eval.QUAL)
    try:
        n, div = brackets_eval.explore(prj, maxlen)
    except Unknown as e:
        ctx.info(f"block matching not evaluable ({e}); not judged")
        ctx.rule("R9", "block matching not evaluable: not judged (C01-R4 has the structural reading)", floor=0)
        return
    if div is None:
        ctx.ok("R9", fi.site(), f"{n} token sequences: no exception, reference pairs")
    else:
        seq, nested, got, want = div
        kind = "raises" if isinstance(got, str) else "pairs"
        ctx.viol("R9", f"get_balanced_symbol_token_indices/{kind}", fi.site(),
                 f"for the token sequence {seq!r} (O opening, C closing, X other; extract_nested={nested}) the function {got if isinstance(got, str) else 'returns ' + str(got)}; "
                 f"required {want}" + (": a stray closing brace (a file whose top was cut off, a duplicated `}` line) aborts the analysis" if kind == "raises" else ""))


def rule_R8_totality(ctx, prj) -> bool:
    from ..absint import PyRaise, Unknown
    from .. import walk_eval as W
    ctx.rule("R8", "scan_path and check_command evaluated to the end on a virtual tree in which every file's bytes are invalid "
                   "UTF-8 and which contains names without lexer, a lexer of an unsupported language, hidden and excluded entries: "
                   "no exception escapes (decoding, lexer lookup, language registry, relative paths), reached as root, relative "
                   "root, directory or file inside and outside the working directory; _scan_file, _analyze_file, check_file, "
                   "_read_file and CheckResult.report are interpreted, only hashing, lexing and measuring are stubbed", floor=5)
    MECH = {"UnicodeDecodeError": ("undecodable-crash", "a file that is not valid UTF-8 crashes the command"),
            "ClassNotFound": ("classnotfound", "a file name without lexer aborts the command"),
            "KeyError": ("by_name-unguarded", "a lexer whose language is not supported (or a key that is absent) raises KeyError"),
            "ValueError": ("relative_to", "a path that does not lie under the expected directory raises ValueError")}
    try:
        for desc, exc, node, lab in W.totality_scenarios(prj):
            q = "codelimit.common.Scanner:scan_path" if desc.startswith("scan") else "codelimit.commands.check:check_command"
            fi = prj.func(q)
            if exc is None:
                ctx.ok("R8", fi.site(), f"{desc}: runs to the end, {len(set(lab.vfs.read_log))} files read")
            else:
                key, why = MECH.get(exc, ("escapes", "an exception escapes"))
                site = getattr(node, "_site", None) or (f"{fi.module.rel}:{getattr(node, 'lineno', fi.node.lineno)}" if node is not None else fi.site())
                ctx.viol("R8", f"{fi.local}/{key}/{exc}", site, f"{desc}: {exc} escapes ({why})")
    except Unknown as e:
        ctx.info(f"pipelines not evaluable ({e}); the must-guard rules R1/R2/R4 decide")
        ctx.rule("R8", "pipelines not evaluable by the interpreter: must-guard rules R1/R2/R4 decide", floor=0)
        ctx.violations[:] = [v for v in ctx.violations if v.rule != "R8"]
        return False
    return True


def run(ctx, prj: Project):
    ctx.explanation = (
        "One exact sub-rule per failure mechanism the property names: decoding (must-guard with a total fallback), "
        "unsupported names (ClassNotFound / registry membership), exclusive end used as index (bounded by a dominating "
        "length test), path arithmetic (relative_to must be handled or provably contained), header patterns always "
        "contain a name (mandatory-atom analysis on the pattern trees), unreachable ambiguity error (C15's exhaustive "
        "product exploration), termination variants for loops and recursion. That no other subscript / .index on the "
        "path can raise is NOT decided (index-bound facts about run-time data).")
    ctx.not_decided = ["absence of IndexError/ValueError from the remaining subscripts and list.index calls on the analysis path",
                       "termination of pygments' lexers"]
    ctx.trust("exception behaviour of open/read/relative_to/get_lexer_for_filename", "latin-1 decodes every byte sequence", "CPython ast")
    fns = analysis_functions(prj, ENTRY)
    evaluated = rule_R8_totality(ctx, prj)
    for rid, fn in (("R1", lambda: rule_R1(ctx, prj, fns)), ("R2", lambda: rule_R2(ctx, prj, fns)), ("R4", lambda: rule_R4(ctx, prj, fns))):
        before = len(ctx.violations)
        try:
            fn()
        except AnalysisError as e:
            if not evaluated:
                raise
            ctx.info(f"{rid}: structural rule not applicable to this form ({e}); R8 (evaluated pipelines) decides")
            ctx.floors.pop(rid, None)
        new = ctx.violations[before:]
        if evaluated and new and not any(v.rule == "R8" for v in ctx.violations):
            # the must-guard reading disagrees with the evaluated pipelines, in which nothing escaped for undecodable files,
            # names without lexer, unsupported languages and paths outside the working directory
            del ctx.violations[before:]
            ctx.instances[rid] = [i for i in ctx.instances.get(rid, []) if i.get("verdict") != "violation"]
            ctx.floors.pop(rid, None)
            ctx.info(f"{rid}: {len(new)} finding(s) of the must-guard reading contradicted by the evaluated pipelines (R8), not reported: "
                     + "; ".join(v.key for v in new[:3]))
        elif evaluated and rid in ctx.floors and len([i for i in ctx.instances.get(rid, []) if i.get("verdict") == "ok"]) < ctx.floors[rid] \
                and not any(v.rule == rid for v in ctx.violations):
            ctx.floors.pop(rid, None)
    mark3 = len(ctx.violations)
    rule_R3(ctx, prj, fns)
    py_new = [v for v in ctx.violations[mark3:] if "languages/Python.py" in str(v.site)]
    if py_new:
        # the indentation scan is evaluated on token programs, one of them with a header at the very end of the token list (the
        # case the must-guard reading is about): when nothing is raised there, the guard is somewhere this reading did not look
        try:
            from .. import pyblocks_eval
            from ..absint import PyRaise as _PR, Unknown as _UK
            res = pyblocks_eval.evaluate(prj)
            if res and not any(isinstance(got, str) for _, got, _ in res):
                for v in py_new:
                    ctx.info(f"R3 (must-guard) would report {v.key} at {v.site}; Python.extract_blocks evaluated on {len(res)} token programs "
                             f"(one with a header at the very end of the token list) raises nothing: not reported")
                    for inst in ctx.instances.get("R3", []):
                        if inst.get("what") == v.key and inst.get("verdict") == "violation":
                            inst["verdict"] = "not reported (decided by the evaluated indentation scan)"
                ctx.violations[mark3:] = [v for v in ctx.violations[mark3:] if v not in py_new]
        except Exception as e:      # the evaluation is only used to withdraw findings
            ctx.info(f"R3: Python.extract_blocks not evaluable ({type(e).__name__}: {e}); the must-guard reading stands")
    rule_R5(ctx, prj)
    rule_R6(ctx, prj)
    rule_R7(ctx, prj, fns)
    rule_R9_brackets(ctx, prj)
