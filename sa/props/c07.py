"""C07 - Totals, profiles and the folder tree always agree with the measurements (agreement of redundant accumulators)."""
from __future__ import annotations

import ast

from ..core import (AnalysisError, FuncInfo, Project, attr_chain, body_exits, const_int, const_str, enclosing, expand,
                    guards_of, local_defs, term, unparse, with_helpers)
from . import c02
from ..intdec import LengthFacts

CB = "codelimit.common.Codebase:Codebase"


def rule_R1(ctx, prj):
    ctx.rule("R1", "LanguageTotals.add: files += 1, loc += entry.loc, functions += len(entry.measurements()), "
                   "hard_to_maintain += CP[2], unmaintainable += CP[3] with CP = make_count_profile(entry.measurements()) of "
                   "the same entry", floor=5)
    from ..symtotals import WANT, WORDS, describe, language_totals_add
    inc, fi = language_totals_add(prj)
    for a in ("files", "loc", "functions", "hard_to_maintain", "unmaintainable"):
        if inc[a].key() == WANT[a].key():
            ctx.ok("R1", fi.site(), f"LanguageTotals.add: {a} += {WORDS[a]} (symbolic effect of the method)")
        elif not inc[a].terms and inc[a].const == 0:
            ctx.viol("R1", f"LanguageTotals.add/{a}", fi.site(), f"LanguageTotals.add no longer accumulates {a}")
        else:
            ctx.viol("R1", f"LanguageTotals.add/{a}", fi.site(), f"{a} is increased by {describe(inc[a])}; required {WORDS[a]}")


def rule_R2(ctx, prj):
    ctx.rule("R2", "every function lands in exactly one profile cell: make_profile adds the length, make_count_profile adds "
                   "1, to the cell of the function's category (so a file's profile partitions its line total); checked by "
                   "C02's folding of both functions", floor=2)
    facts = LengthFacts(prj, seed_functions=tuple(c02.SITES))

    class Probe:
        def __init__(self, outer):
            self.o = outer
            self.obligations = self.discharged = 0
            self.instances, self.lines = {}, []
        def viol(self, rid, key, site, msg, **k): self.o.viol("R2", key, site, msg)
        def ok(self, rid, site, what, **k): self.o.ok("R2", site, what)
        def sample(self, *a): pass
    pr = Probe(ctx)
    for q in ("codelimit.common.utils:make_profile", "codelimit.common.utils:make_count_profile"):
        before = len(ctx.violations)
        c02.check_site(pr, prj, prj.func(q), facts, c02.SITES[q])
        for l in pr.instances.get("R1", []):
            ctx.instances.setdefault("R2", []).append(l)
        pr.instances = {}
    # file loc = sum of its measurements' values: evaluated on the entries the interpreted scan_path produces (as C05-R1);
    # the syntactic reading of the construction site is the fallback
    from ..absint import PyRaise as _PR, Unknown as _UK
    try:
        from .. import walk_eval as W
        es = W.scanned_entries(prj)
        sp = prj.func("codelimit.common.Scanner:scan_path")
        if not es:
            raise _UK("no entry produced")
        badl = [e for e in es if e[3] != sum(e[4])]
        if badl:
            k, _, _, loc, vals, _ = badl[0]
            ctx.viol("R2", "_analyze_file/loc", sp.site(), f"the entry of {k} produced by the scan has line total {loc} for measurements of lengths {vals} (sum {sum(vals)})")
        else:
            ctx.ok("R2", sp.site(), f"scan path: {len(es)} entries, each with loc = sum of the lengths of its measurements (evaluated)")
        return
    except (_UK, _PR) as e:
        ctx.info(f"R2: scan path not evaluable ({e}); the construction site is read syntactically")
    from .c05 import _is_sum_of_values
    af = prj.func("codelimit.common.Scanner:_analyze_file")
    n = 0
    for c in af.calls():
        if attr_chain(c.func) == "SourceFileEntry" and len(c.args) >= 5:
            n += 1
            loc, ms = c.args[3], c.args[4]
            forms = [(loc, ms), (expand(af, loc), expand(af, ms)), (expand(af, loc), ms)]
            if any(_is_sum_of_values(le, me) for le, me in forms):
                ctx.ok("R2", af.site(c), f"_analyze_file: entry loc = sum of the values of the same measurement list ({unparse(ms)})")
            else:
                le = expand(af, loc)
                wrong = isinstance(le, ast.Constant) or (isinstance(le, ast.Call) and attr_chain(le.func) == "len") or \
                    (isinstance(le, ast.Call) and attr_chain(le.func) in ("sum", "max", "min") and not any(isinstance(x, ast.Attribute) and x.attr == "value" for x in ast.walk(le)))
                if not wrong:
                    # a form this reading does not know (a running total, a generator's return value ...): nothing recognised, nothing reported
                    raise AnalysisError(f"{af.site(c)}: how the line total {term(af, loc)[:60]} relates to the measurements {unparse(ms)} is not understood")
                ctx.viol("R2", "_analyze_file/loc", af.site(c), f"file line total is {term(af, loc)[:80]}, not the sum of the lengths of the measurements stored with it ({unparse(ms)})")
    if not n:
        raise AnalysisError("_analyze_file: SourceFileEntry(...) construction not found")


def rule_R3(ctx, prj):
    ctx.rule("R3", "each ScanTotals.total_X sums field X over all language totals; merge_profiles adds position i to "
                   "position i for all four positions", floor=6)
    from ..absint import Lin, MiniInterp, PyRaise, Sym, Unknown
    st = prj.cls("codelimit.common.ScanTotals:ScanTotals")
    lt = prj.cls("codelimit.common.LanguageTotals:LanguageTotals")
    pairs = {"total_files": "files", "total_functions": "functions", "total_loc": "loc",
             "total_hard_to_maintain": "hard_to_maintain", "total_unmaintainable": "unmaintainable"}
    flds = list(pairs.values())
    for m, fld in pairs.items():
        fi = st.find_method(m)
        alias = fi is None
        if fi is None:
            if not any(m in c.class_attrs for c in st.mro()):
                raise AnalysisError(f"ScanTotals.{m} not found")
            fi = next(iter(st.methods.values()))      # defined in the class body by an expression (partialmethod, a factory ...)
        # two generic language totals stand for the collection (the methods treat the elements uniformly)
        ts = [Sym(f"T{i}", _cls=lt, language=f"lang{i}", **{f: Sym(f"T{i}.{f}") for f in flds}) for i in (1, 2)]
        it = MiniInterp(prj)
        try:
            me = it.construct(st, [{"lang1": ts[0], "lang2": ts[1]}], {}, None, fi)
            r = it.getattr(me, m, fi, None)
            if alias or not fi.is_property():
                r = it.call_callable(r, [], {})
            got = Lin.of(r)
        except (Unknown, PyRaise) as e:
            raise AnalysisError(f"ScanTotals.{m}: cannot evaluate symbolically ({e})")
        want = Lin({f"T1.{fld}": 1, f"T2.{fld}": 1})
        if got.key() == want.key():
            ctx.ok("R3", fi.site(), f"ScanTotals.{m} = sum(.{fld}) over all languages (evaluated on two generic language totals: {got})")
        else:
            ctx.viol("R3", f"ScanTotals.{m}", fi.site(), f"{m} evaluates to {got} for the language totals T1, T2; required T1.{fld} + T2.{fld}")
    mp = prj.func("codelimit.common.utils:merge_profiles")
    xs = [Sym(f"a{i}") for i in range(4)]
    ys = [Sym(f"b{i}") for i in range(4)]
    try:
        r = MiniInterp(prj).call(mp, [list(xs), list(ys)], {})
        r = r.rest() if hasattr(r, "rest") else r
        got = [Lin.of(x).key() for x in r]
    except (Unknown, PyRaise, TypeError) as e:
        raise AnalysisError(f"merge_profiles: cannot evaluate symbolically ({e})")
    want = [Lin({f"a{i}": 1, f"b{i}": 1}).key() for i in range(4)]
    if got == want:
        ctx.ok("R3", mp.site(), "merge_profiles adds the two profiles position by position (evaluated on symbolic cells)")
    else:
        ctx.viol("R3", "merge_profiles", mp.site(), f"merge_profiles([a0..a3], [b0..b3]) evaluates to {[repr(Lin.of(x)) for x in r]}; required [a[i] + b[i] for i in 0..3]")


def rule_R4(ctx, prj):
    ctx.rule("R4", "Codebase.add_file registers the entry under its path, updates the totals of its language (created on "
                   "first use) and appends it to the folder keyed by its parent; add_folder registers a new folder in its "
                   "parent exactly once (under the same not-in-tree test that creates it) and recurses to the parent", floor=5)
    af = prj.func(f"{CB}.add_file")
    e = af.params()[1]
    src = unparse(af.node)
    stores = [n for n in af.walk() if isinstance(n, ast.Assign) and isinstance(n.targets[0], ast.Subscript)
              and term(af, n.targets[0].value) == "self.files" and term(af, n.targets[0].slice) == f"{e}.path" and term(af, n.value) == e]
    adds = [c for c in af.calls() if isinstance(c.func, ast.Attribute) and c.func.attr == "add" and len(c.args) == 1 and term(af, c.args[0]) == e
            and term(af, c.func.value) == f"self.totals[{e}.language]"]
    for hits, what, needle in ((stores, "entry stored under its own path", f"self.files[{e}.path] = {e}"),
                               (adds, "language totals updated with the entry", f"self.totals[{e}.language].add({e})")):
        if hits and not enclosing(af, hits[0], (ast.If, ast.For, ast.While, ast.Try)):
            ctx.ok("R4", af.site(hits[0]), f"add_file: {what}")
        else:
            ctx.viol("R4", f"add_file/{what}", af.site(), f"add_file does not unconditionally execute `{needle}`")
    creates = [n for n in af.walk() if isinstance(n, ast.Assign) and unparse(n.targets[0]) == f"self.totals[{e}.language]"]
    if creates and any(unparse(g.test).replace(" ", "") == f"{e}.languagenotinself.totals" and g.polarity for g in guards_of(af, creates[0])):
        ctx.ok("R4", af.site(creates[0]), "add_file: language totals created on first use only")
    else:
        ctx.viol("R4", "add_file/totals-creation", af.site(), "language totals are not created exactly when the language is new (re-creation resets, missing creation raises)")
    folder_add = [c for c in af.calls() if isinstance(c.func, ast.Attribute) and c.func.attr == "add_file" and unparse(c.func.value) != "self"]
    if folder_add:
        recv = term(af, folder_add[0].func.value)
        if "get_parent_folder(" in recv and f"{e}.path" in recv and unparse(folder_add[0].args[0]) == e:
            ctx.ok("R4", af.site(folder_add[0]), f"add_file: entry appended to the folder of get_parent_folder({e}.path)")
        else:
            ctx.viol("R4", "add_file/folder", af.site(folder_add[0]), f"the entry is appended to {recv[:80]}, not to its parent folder")
    else:
        ctx.viol("R4", "add_file/folder", af.site(), "add_file no longer appends the entry to its parent folder")
    fo = prj.func(f"{CB}.add_folder")
    p = fo.params()[1]
    regs = [c for c in fo.calls() if isinstance(c.func, ast.Attribute) and c.func.attr == "add_folder" and unparse(c.func.value) != "self"]
    rec = [c for c in fo.calls() if isinstance(c.func, ast.Attribute) and c.func.attr == "add_folder" and unparse(c.func.value) == "self"]
    crea = [n for n in fo.walk() if isinstance(n, ast.Assign) and isinstance(n.targets[0], ast.Subscript) and unparse(n.targets[0].value) == "self.tree"]

    def under_new(node):
        return any(isinstance(g.test, ast.Compare) and isinstance(g.test.ops[0], ast.NotIn) and g.polarity and "self.tree" in unparse(g.test)
                   or (isinstance(g.test, ast.Compare) and isinstance(g.test.ops[0], ast.In) and not g.polarity and "self.tree" in unparse(g.test))
                   for g in guards_of(fo, node))
    if crea and regs and rec and all(under_new(x) for x in crea + regs):
        recv = term(fo, regs[0].func.value)
        arg = term(fo, regs[0].args[0])
        if "get_parent_folder(" in recv and arg == f"get_basename({p})" and "get_parent_folder(" in term(fo, rec[0].args[0]):
            ctx.ok("R4", fo.site(regs[0]), "add_folder: new folder created, registered once under its parent by its base name, parent ensured recursively")
        else:
            ctx.viol("R4", "add_folder/registration", fo.site(regs[0]), f"a new folder is registered as {arg} in {recv[:60]}; required get_basename(path) in its parent folder")
    else:
        ctx.viol("R4", "add_folder/once", fo.site(), "creating a folder and listing it under its parent are not both guarded by the same not-in-tree test: "
                 "folders are listed twice or not at all")
    sf = prj.cls("codelimit.common.SourceFolder:SourceFolder")
    for m, kind in (("add_file", "entry"), ("add_folder", "SourceFolderEntry")):
        f = sf.methods[m]
        apps = [c for c in f.calls() if isinstance(c.func, ast.Attribute) and c.func.attr == "append" and unparse(c.func.value) == "self.entries"]
        if len(apps) == 1:
            ctx.ok("R4", f.site(), f"SourceFolder.{m}: appends exactly one entry")
        else:
            ctx.viol("R4", f"SourceFolder.{m}", f.site(), f"SourceFolder.{m} appends {len(apps)} entries")


def rule_R7_tree(ctx, prj) -> bool:
    from ..absint import PyRaise, Unknown
    from .. import tree_eval as TE
    ctx.rule("R7", "a codebase built through add_file from files at several depths (also below a one-character folder, a folder "
                   "whose name sorts before './' and folders that hold no file themselves) and aggregated once: the totals of every "
                   "language equal the sums over its files, every file is listed once in its parent folder, every folder once in "
                   "its parent (by its base name), and every folder profile is the sum of the profiles of the files below it", floor=3)
    ag = prj.func(f"{CB}.aggregate")
    af = prj.func(f"{CB}.add_file")
    try:
        t, f, p, files = TE.build(prj)
    except PyRaise as e:
        node = getattr(e, "node", None)
        site = getattr(node, "_site", None) or (f"{ag.module.rel}:{node.lineno}" if node is not None and hasattr(node, "lineno") else ag.site())
        ctx.viol("R7", f"codebase/raises-{e.name}", site,
                 f"building and aggregating a codebase from the paths {[x[0] for x in TE.FILES]} raises {e.name}: the tree's keys (paths as given) and the "
                 f"names under which folders and files are listed no longer agree for one of them, so no report is produced")
        return True
    except Unknown as e:
        ctx.info(f"codebase not evaluable ({type(e).__name__}: {e}); structural rules R4/R5 decide")
        ctx.rule("R7", "codebase construction not evaluable by the interpreter: structural rules decide", floor=0)
        return False
    rt, rf, rp = TE.reference()
    if files != [x[0] for x in TE.FILES]:
        ctx.viol("R7", "add_file/files", af.site(), f"the files are registered as {files}; required {[x[0] for x in TE.FILES]} (each once, under its own path, in the order added)")
    else:
        ctx.ok("R7", af.site(), f"{len(files)} files registered under their own paths")
    if t != rt:
        lang = next(k for k in set(t) | set(rt) if t.get(k) != rt.get(k))
        ctx.viol("R7", "add_file/language totals", af.site(), f"the totals of {lang} are {t.get(lang)}; the files give {rt.get(lang)}")
    else:
        ctx.ok("R7", af.site(), f"totals of {sorted(t)} equal the sums over their files")
    if {k: sorted(v) for k, v in f.items()} != {k: sorted(v) for k, v in rf.items()}:
        key = next(k for k in list(f) + list(rf) if sorted(f.get(k, [("<missing>", 0)])) != sorted(rf.get(k, [("<missing>", 0)])))
        ctx.viol("R7", "add_folder/registration", prj.func(f"{CB}.add_folder").site(), f"folder {key!r} lists {f.get(key)}; required {rf.get(key)}: a file or sub-folder is listed twice, not at all or under another name")
    else:
        ctx.ok("R7", af.site(), f"{len(f)} folders, every file and sub-folder listed exactly once in its parent")
    if p != rp:
        key = next(k for k in rp if p.get(k) != rp[k])
        ctx.viol("R7", "aggregate/profile", ag.site(), f"after aggregate() the profile of folder {key!r} is {p.get(key)}; the files below it give {rp[key]}"
                 + (": a sub-folder was merged before it was complete, or not at all" if key == "./" or any(k != key and k.startswith(key) for k in rp) else ""))
    else:
        ctx.ok("R7", ag.site(), "every folder profile = sum of the profiles of the files below it (root included)")
    return True


def rule_R5(ctx, prj, form=True):
    ctx.rule("R5", "aggregate() computes every folder profile from file profiles and from the COMPLETED profiles of its "
                   "sub-folders (recursion returns the sub-folder's profile, or an explicit children-first order), and is "
                   "applied exactly once to a codebase: once in scan_command, once at the end of ReportReader.from_json, "
                   "never again on the same object and never before the last add_file", floor=3 if form else 2)
    ag = prj.func(f"{CB}.aggregate")
    inner = list(ag.nested.values()) if form else []
    for h in (with_helpers(prj, ag)[1:] if form else []):
        inner.append(h)
        inner += list(h.nested.values())
    rec_ok = not form        # when the tree was evaluated (R7), how aggregate walks it is already decided

    def sources(f, e, depth=0):
        out = [e]
        if depth < 3:
            for n in ast.walk(e):
                if isinstance(n, ast.Name):
                    for v, _ in local_defs(f, n.id):
                        if v is not None:
                            out += sources(f, v, depth + 1)
        return out
    for f in inner:
        rc = [c for c in f.calls() if f in prj.resolve_call(f, c)[0]]
        merges = [c for c in f.calls() if (attr_chain(c.func) or "").split(".")[-1] == "merge_profiles"]
        if rc and merges:
            srcs = [x for m in merges for a in m.args for x in sources(f, a)]
            uses_rec = any(any(x is r for x in ast.walk(sx)) for sx in srcs for r in rc)
            file_side = any(".profile()" in unparse(sx) for sx in srcs)
            if uses_rec and file_side:
                rec_ok = True
                ctx.ok("R5", f.site(), f"aggregate ({f.local}): folder profile = merge of file profiles and of the recursive result for each sub-folder")
    if not rec_ok:
        # iterative form: needs a children-first order that does not depend on how names sort
        loops = [n for n in ag.walk() if isinstance(n, ast.For) and "self.tree" in unparse(n.iter)]
        if loops:
            it = unparse(loops[0].iter)
            depth_key = "count(" in it or "depth" in it or "len(" in it and "split" in it
            if depth_key:
                ctx.ok("R5", ag.site(loops[0]), f"aggregate: iterative, folders ordered by depth ({it[:60]})")
            else:
                ctx.viol("R5", "aggregate/order", ag.site(loops[0]),
                         f"aggregate reads sub-folder profiles in the order {it[:70]}: whether a sub-folder is complete before its parent "
                         f"reads it depends on how the path strings sort (a top-level folder whose name sorts before './' is merged too late), "
                         f"so the root profile can miss whole sub-trees")
        else:
            raise AnalysisError("Codebase.aggregate: neither the recursive nor an iterative form recognised")
    # resets / double aggregation
    sfld = prj.cls("codelimit.common.SourceFolder:SourceFolder")
    for q, after_adds in (("codelimit.commands.scan:scan_command", False), ("codelimit.common.report.ReportReader:ReportReader.from_json", True)):
        f = prj.func(q)
        aggs = [c for c in f.calls() if isinstance(c.func, ast.Attribute) and c.func.attr == "aggregate"]
        in_loop = [c for c in aggs if enclosing(f, c, (ast.For, ast.While))]
        if len(aggs) == 1 and not in_loop:
            c = aggs[0]
            adds = [a for a in f.calls() if isinstance(a.func, ast.Attribute) and a.func.attr == "add_file"]
            if all(a.lineno < c.lineno for a in adds):
                ctx.ok("R5", f.site(c), f"{f.local}: aggregate() once, after every add_file")
            else:
                ctx.viol("R5", f"{f.local}/aggregate-before-add", f.site(c), "files are added after aggregate(): their profiles never reach the folders")
        elif len(aggs) == 0:
            ctx.viol("R5", f"{f.local}/no-aggregate", f.site(), f"{f.local} hands out a codebase whose folder profiles were never aggregated (all zero)")
        else:
            ctx.viol("R5", f"{f.local}/aggregate-twice", f.site(aggs[-1]), "aggregate() is applied more than once to the same codebase: folder profiles are added to, never reset, so they double")
    # nobody else aggregates (scan_path / scan_codebase return NEW codebases; renderers get AGGREGATED ones)
    from ..inline import baseline_names
    base = baseline_names()
    callers, todo = set(), list(prj.callgraph.callers_of(f"{CB}.aggregate"))
    while todo:                       # a newly extracted helper stands for the functions that call it
        q = todo.pop()
        if q in base or not prj.callgraph.callers_of(q):
            callers.add(q)
        else:
            todo += [x for x in prj.callgraph.callers_of(q) if x not in callers]
    extra = callers - {"codelimit.commands.scan:scan_command", "codelimit.common.report.ReportReader:ReportReader.from_json"}
    for q in sorted(extra):
        ctx.viol("R5", f"aggregate<-{q.split(':')[1]}", prj.funcs[q].site(), f"{q} also aggregates: a codebase that passes through scan_command / from_json as well is aggregated twice")


def rule_R6(ctx, prj):
    ctx.rule("R6", "no stale memo: a Codebase/Report attribute that caches a value derived from files/totals/tree (assigned "
                   "in a query method under an `is None` test) is reset by every method that changes those fields", floor=1)
    n = 0
    for cq in (CB, "codelimit.common.report.Report:Report", "codelimit.common.ScanTotals:ScanTotals", "codelimit.common.SourceFolder:SourceFolder",
               "codelimit.common.SourceFileEntry:SourceFileEntry", "codelimit.common.LanguageTotals:LanguageTotals"):
        ci = prj.cls(cq)
        mutators = {}
        for m in ci.methods.values():
            if m.name == "__init__":
                continue
            writes = set()
            for x in m.walk():
                if isinstance(x, (ast.Assign, ast.AugAssign)):
                    for t in (x.targets if isinstance(x, ast.Assign) else [x.target]):
                        b = t.value if isinstance(t, ast.Subscript) else t
                        if isinstance(b, ast.Attribute) and isinstance(b.value, ast.Name) and b.value.id == "self":
                            writes.add(b.attr)
                if isinstance(x, ast.Call) and isinstance(x.func, ast.Attribute) and x.func.attr in ("append", "extend", "add", "update", "pop", "clear") \
                        and isinstance(x.func.value, ast.Attribute) and isinstance(x.func.value.value, ast.Name) and x.func.value.value.id == "self":
                    writes.add(x.func.value.attr)
            mutators[m.name] = writes
        for m in ci.methods.values():
            if m.name == "__init__":
                continue
            for x in m.walk():
                if isinstance(x, ast.Assign) and isinstance(x.targets[0], ast.Attribute) and isinstance(x.targets[0].value, ast.Name) and x.targets[0].value.id == "self":
                    memo = x.targets[0].attr
                    gs = guards_of(m, x)
                    is_memo = any(isinstance(g.test, ast.Compare) and isinstance(g.test.ops[0], (ast.Is, ast.Eq)) and g.polarity
                                  and unparse(g.test.left) == f"self.{memo}" and unparse(g.test.comparators[0]) == "None" for g in gs) or \
                        any(unparse(g.test) == f"self.{memo}" and not g.polarity for g in gs)
                    if not is_memo:
                        continue
                    n += 1
                    deps = {a.attr for a in ast.walk(m.node) if isinstance(a, ast.Attribute) and isinstance(a.value, ast.Name) and a.value.id == "self"} - {memo}
                    for other, w in mutators.items():
                        if other == m.name:
                            continue
                        if w & deps and memo not in w:
                            om = ci.methods[other]
                            ctx.viol("R6", f"{ci.name}.{memo}/stale-after-{other}", om.site(),
                                     f"{ci.name}.{m.name} caches its result in self.{memo} (derived from {sorted(w & deps)}), but {other} changes "
                                     f"{sorted(w & deps)} without resetting it: queries made before the last {other} freeze totals/profiles that "
                                     f"then disagree with the rest of the report")
    if n == 0:
        ctx.ok("R6", prj.cls(CB).methods["all_measurements"].site(), "no memoised attribute in Codebase/Report/ScanTotals/SourceFolder/SourceFileEntry/LanguageTotals: every query recomputes from files/totals/tree")


def canon(v, seen=None, depth=0):
    """structural description of a value of the interpreter (objects by class and fields, not by identity)"""
    from ..absint import ISet, Sym
    seen = seen if seen is not None else set()
    if depth > 8:
        return "..."
    if isinstance(v, Sym):
        if v.uid in seen:
            return f"<{v.cls.name if v.cls else v.name} again>"
        seen.add(v.uid)
        return (v.cls.name if v.cls else v.name, tuple((k, canon(x, seen, depth + 1)) for k, x in sorted(v.fields.items())))
    if isinstance(v, dict):
        return ("dict", tuple((repr(k), canon(x, seen, depth + 1)) for k, x in v.items()))
    if isinstance(v, (list, tuple)):
        return (type(v).__name__, tuple(canon(x, seen, depth + 1) for x in v))
    if isinstance(v, ISet):
        return ("set", tuple(canon(x, seen, depth + 1) for x in v.xs))
    return repr(v)


def rule_R8_isolation(ctx, prj, rid="R8"):
    """accumulator objects of one process do not share state: a new ScanTotals / LanguageTotals / Codebase built after another
    one has been filled is in the same state as the first one was when it was new (a default argument is evaluated once)"""
    from ..absint import PyRaise, Unknown
    from ..report_eval import ReportLab
    ctx.rule(rid, "accumulators of one process are independent: after an instance of ScanTotals, LanguageTotals or Codebase has been "
                   "filled, a newly constructed one starts in the state a new one had before (no container shared through a "
                   "default argument or a class attribute)", floor=2)
    table = [("codelimit.common.ScanTotals:ScanTotals", [], "add"),
             ("codelimit.common.LanguageTotals:LanguageTotals", ["Python"], "add"),
             (CB, ["/root"], "add_file")]
    for qual, args, filler in table:
        try:
            ci = prj.cls(qual)
        except Exception:
            continue
        m = ci.find_method(filler)
        if m is None:
            continue
        site = prj.func(m.qual).site()
        try:
            rl = ReportLab(prj)
            first = rl.new(ci, *args)
            before = canon(first)
            ms = [rl.new(rl.Measurement, f"f{i}", rl.new(rl.Location, 1, 1), rl.new(rl.Location, 2, 1), v) for i, v in enumerate([16, 31, 61])]
            rl.call(first, filler, rl.new(rl.Entry, "a/b.py", "sum", "Python", 108, ms))
            if canon(first) == before:
                raise Unknown(f"{ci.name}.{filler} leaves the object unchanged")
            second = rl.new(ci, *args)
            after = canon(second)
        except (Unknown, PyRaise) as e:
            ctx.info(f"{rid}: {ci.name} not evaluable ({type(e).__name__}: {e}); not decided for this class")
            continue
        if after != before:
            diff = next((f"{a[0]}: {b[1]!r} instead of {a[1]!r}" for a, b in zip(before[1], after[1]) if a != b), "fields differ") \
                if isinstance(before, tuple) and isinstance(after, tuple) else "state differs"
            ctx.viol(rid, f"{ci.name}/shared-state", site,
                     f"a {ci.name}({', '.join(map(repr, args))}) constructed after another instance was filled by {filler}() does not start "
                     f"empty ({str(diff)[:260]}): state is shared between instances (mutable default argument or class-level "
                     f"container), so the totals of a second scan in the same process include the first one's")
        else:
            ctx.ok(rid, site, f"{ci.name}: a new instance is unaffected by {filler}() on an earlier one")


def rule_R9_paths(ctx, prj) -> bool:
    """exactly-once aggregation on the two paths a codebase takes, evaluated: the document scan_command writes for a virtual tree,
    and the report ReportReader.from_json rebuilds from it, carry for every folder the profile its files give - not twice that"""
    import json
    from ..absint import PyRaise, Unknown
    from .. import scan_eval as S
    from ..report_eval import ReportLab
    ctx.rule("R9", "aggregation applied exactly once, evaluated on both paths: in the document written by the interpreted scan_command "
                   "for a virtual tree (three files, functions of 40+7, 61+16+31 and 15 lines) and in the report the interpreted reader "
                   "rebuilds from that document, every folder profile and every language total equals what its files give", floor=0)
    sc = prj.func("codelimit.commands.scan:scan_command")
    try:
        out = S.scan(prj, S.State())
        if out.raised:
            raise Unknown(f"scan raises {out.raised}")
        doc = json.loads(out.state.texts[S.DOC])
        cat = lambda v: 0 if v <= 15 else 1 if v <= 30 else 2 if v <= 60 else 3

        def prof(paths):
            p = [0, 0, 0, 0]
            for f, vals in S.LENGTHS.items():
                rel = "sub/c.py" if f == "c.py" else f
                if any(rel.startswith(x) for x in paths):
                    for v in vals:
                        p[cat(v)] += v
            return p
        want = {"./": prof([""]), "sub/": prof(["sub/"])}
        got = {k: v.get("profile") for k, v in doc["codebase"]["tree"].items()}
        back = ReportLab(prj).read(out.state.texts[S.DOC])
        got2 = {k: list(f.fields.get("profile")) for k, f in back.fields["codebase"].fields["tree"].items()}
    except (Unknown, PyRaise, KeyError, TypeError, ValueError, AttributeError) as e:
        ctx.info(f"R9: scan_command / the reader not evaluable for the folder profiles ({type(e).__name__}: {e}); the structural rule R5 decides")
        return False
    ok = True
    for name, g in (("the document written by scan", got), ("the report read back from that document", got2)):
        if g != want:
            k = next(k for k in want if g.get(k) != want[k])
            twice = g.get(k) == [2 * x for x in want[k]]
            ctx.viol("R9", "aggregate/" + ("twice" if twice else "profile"), sc.site(),
                     f"in {name} folder {k!r} has profile {g.get(k)}; its files give {want[k]}" + (": aggregate() was applied twice" if twice else ""))
            ok = False
        else:
            ctx.ok("R9", sc.site(), f"{name}: folder profiles {g} equal what the files give (aggregated exactly once)")
    return ok


def run(ctx, prj: Project):
    ctx.explanation = (
        "Agreement of the three redundant views (per-language totals, folder-tree profiles, per-file data) decided as "
        "accumulator specifications: normal form 'cell += term' with provenance comparison for every update, one bucket "
        "per function (shared with C02's folding), per-field sums, tree maintenance guards, aggregation order and "
        "exactly-once application, absence of stale memo attributes. Arbitrary path strings (e.g. '//' or trailing "
        "separators confusing get_parent_folder) are run-time values and are not decided.")
    ctx.not_decided = ["behaviour of get_parent_folder/get_basename on unusual path strings"]
    ctx.trust("CPython ast", "C02-R1 for the category of a length")
    rule_R1(ctx, prj)
    rule_R2(ctx, prj)
    rule_R3(ctx, prj)
    evaluated = rule_R7_tree(ctx, prj)
    if not evaluated:
        rule_R4(ctx, prj)
    once = rule_R9_paths(ctx, prj)
    ctx.complement("R5", lambda: rule_R5(ctx, prj, form=not evaluated), decided=bool(once and evaluated), demote=True,
                   by="the evaluated tree (R7) and the evaluated scan / read paths (R9)")
    rule_R6(ctx, prj)
    rule_R8_isolation(ctx, prj)
