import os, sys; sys.path.insert(0, os.getcwd())
import json

import codelimit
from codelimit.common.Codebase import Codebase
from codelimit.common.Location import Location
from codelimit.common.Measurement import Measurement
from codelimit.common.SourceFileEntry import SourceFileEntry
from codelimit.common.report.Report import Report
from codelimit.common.report.ReportWriter import ReportWriter

assert codelimit.__file__.startswith(os.getcwd()), codelimit.__file__

SEP = os.path.sep


def entry(path, language, values):
    ms = [Measurement(f"f{i}()", Location(i + 1, 1), Location(i + 2, 1), v) for i, v in enumerate(values)]
    return SourceFileEntry(path, "cafe", language, sum(values), ms)


def check(files):
    """files: list of (path, language, values) in insertion order; returns list of violations"""
    problems = []
    cb = Codebase("/project")
    for path, language, values in files:
        cb.add_file(entry(path, language, values))
    try:
        cb.aggregate()
    except Exception as e:  # noqa
        problems.append(f"aggregate() raised {type(e).__name__}: {e}")
    tree = json.loads(ReportWriter(Report(cb)).to_json())["codebase"]["tree"]

    # expected tree: every file once under its parent, every folder once under its parent
    expected = {"./": []}
    for path, _, _ in files:
        parts = path.split(SEP)
        for depth in range(1, len(parts)):
            key = SEP.join(parts[:depth]) + "/"
            parent = SEP.join(parts[:depth - 1]) + "/" if depth > 1 else "./"
            if key not in expected:
                expected[key] = []
                expected[parent].append(parts[depth - 1] + "/")
        parent = SEP.join(parts[:-1]) + "/" if len(parts) > 1 else "./"
        expected[parent].append(parts[-1])
    for key in sorted(set(expected) | set(tree)):
        want = sorted(expected.get(key, ["<folder should not exist>"]))
        got = sorted(tree.get(key, {"entries": ["<folder missing>"]})["entries"])
        if want != got:
            problems.append(f"tree[{key!r}] lists {got}, expected {want}")

    # every folder profile = sum of the profiles of the files beneath it
    for key, folder in tree.items():
        prefix = "" if key == "./" else key
        want = [0, 0, 0, 0]
        for path, e in cb.files.items():
            if path.startswith(prefix):
                want = [a + b for a, b in zip(want, e.profile())]
        if folder["profile"] != want:
            problems.append(f"profile of {key!r} is {folder['profile']}, files beneath add up to {want}")
    return problems


def main():
    scenarios = {
        "ordinary relative paths": [("a.py", "Python", [10]), ("pkg/b.py", "Python", [20]),
                                    ("pkg/sub/c.py", "Python", [40, 61])],
        # a relative path with a doubled separator (naive string join of "pkg/" + "/mod.py"): the folder
        # "pkg//" has an empty base name and is listed in "pkg/" under the name "/"
        "doubled separator": [("pkg/b.py", "Python", [20]), ("pkg//mod.py", "Python", [12, 35]),
                              ("a.py", "Python", [70])],
    }
    failed = False
    for name, files in scenarios.items():
        problems = check(files)
        print(f"{name}: {'OK' if not problems else 'VIOLATED'}")
        for p in problems:
            print("   " + p)
        failed = failed or bool(problems)
    return 1 if failed else 0


if __name__ == "__main__":
    sys.exit(main())
