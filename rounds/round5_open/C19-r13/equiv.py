import os, sys; sys.path.insert(0, os.getcwd())

# Equivalence check for the summary percentages / verdict code (property C19).
# Run as:  cd /tmp/wt/C19 && /venv/bin/python /tmp/wt/C19.r5/ref1/equiv.py
# `--record` prints the observed digests instead of comparing (used once on the clean tree).

import hashlib
import io
import itertools
import json
import random

from rich.console import Console

import codelimit
from codelimit.common.Codebase import Codebase
from codelimit.common.Location import Location
from codelimit.common.Measurement import Measurement
from codelimit.common.SourceFileEntry import SourceFileEntry
from codelimit.common.SummaryTable import SummaryTable
from codelimit.common.report import format_markdown, format_text
from codelimit.common.report.Report import Report
from codelimit.common.report.ReportReader import ReportReader
from codelimit.common.report.ReportWriter import ReportWriter
from codelimit.common import utils

assert codelimit.__file__.startswith(os.getcwd()), codelimit.__file__

failures = []
observed = {}


def digest(obj) -> str:
    return hashlib.sha256(json.dumps(obj, ensure_ascii=True, sort_keys=True).encode()).hexdigest()[:20]


def check(name, value, expected):
    observed[name] = value
    if value != expected:
        failures.append(f"{name}: got {value!r}, expected {expected!r}")


def stub_report(profile):
    report = Report(Codebase("/"))
    report.quality_profile = lambda: list(profile)
    return report


def pct(profile):
    result = stub_report(profile).quality_profile_percentage()
    assert isinstance(result, tuple) and len(result) == 4, result
    assert all(type(v) is int for v in result), result
    return list(result)


def recording_console():
    return Console(record=True, width=100, file=io.StringIO(), force_terminal=True, color_system="standard",
                   legacy_windows=False)


def rendered(profile):
    """Everything the user sees for one quality profile."""
    report = stub_report(profile)
    c1 = recording_console()
    format_text.print_summary(c1, report)
    c2 = recording_console()
    format_markdown.print_summary(c2, report)
    table = SummaryTable(report)
    cells = [[str(cell), str(cell.style)] for column in table.columns for cell in column.cells]
    headers = [str(column.header) for column in table.columns]
    return {
        "text": c1.export_text(styles=True),
        "markdown_plain": c2.export_text(styles=False, clear=False),
        "markdown": c2.export_text(styles=True),
        "cells": cells,
        "headers": headers,
        "squares": format_text.make_profile(report),
    }


def measurement(value, i=0):
    return Measurement(f"f{i}()", Location(i + 1, 1), Location(i + 2, 1), value)


def codebase_of(files):
    """files: list of (path, [lengths])"""
    codebase = Codebase("/")
    n = 0
    for path, lengths in files:
        ms = []
        for v in lengths:
            ms.append(measurement(v, n))
            n += 1
        codebase.add_file(SourceFileEntry(path, "c" + path, "Python", sum(lengths), ms))
    return codebase


# ---------------------------------------------------------------- 1. explicit profiles
EXPLICIT = {
    "0,0,0,0": [100, 0, 0, 0],
    "1,0,0,0": [100, 0, 0, 0],
    "0,1,0,0": [0, 100, 0, 0],
    "0,0,1,0": [0, 0, 100, 0],
    "0,0,0,1": [0, 0, 0, 100],
    "2530,2883,1395,0": [36, 43, 21, 0],
    "630,300,70,0": [63, 30, 7, 0],
    "0,16,31,61": [-1, 15, 29, 57],
    "0,0,1,2": [-1, 0, 34, 67],
    "1,1,1,1": [25, 25, 25, 25],
    "1,1,1,0": [32, 34, 34, 0],
    "1,1,1,4": [12, 15, 15, 58],
    "99999,0,0,1": [100, 0, 0, 0],
    "100000,0,0,1": [100, 0, 0, 0],
    "99998,0,0,2": [99, 0, 0, 1],
    "99998,0,2,0": [99, 0, 1, 0],
    "10000000,0,1,0": [100, 0, 0, 0],
    "99998,0,1,1": [100, 0, 0, 0],
    "80,0,20,0": [80, 0, 20, 0],
    "79,0,21,0": [79, 0, 21, 0],
    "7999,0,2001,0": [79, 0, 21, 0],
    "799999,0,200001,0": [80, 0, 20, 0],
    "79999999,0,20000001,0": [80, 0, 20, 0],
    "3,3,3,0": [32, 34, 34, 0],
    "1,0,0,999": [0, 0, 0, 100],
    "1,0,0,99999": [0, 0, 0, 100],
    "1,0,0,199999": [0, 0, 0, 100],
}
for key, expected in EXPLICIT.items():
    check(f"pct[{key}]", pct([int(x) for x in key.split(",")]), expected)

# ---------------------------------------------------------------- 2. exhaustive + random sweeps
BOUND = 24
sweep = [pct(p) for p in itertools.product(range(BOUND + 1), repeat=4) if sum(p) <= BOUND]
check("exhaustive_count", len(sweep), 20475)
check("exhaustive_digest", digest(sweep), "8ed750697fcf8944db9d")

rng = random.Random(19)
large = []
for _ in range(4000):
    kind = rng.randrange(4)
    if kind == 0:
        p = [rng.randrange(10 ** 6) for _ in range(4)]
    elif kind == 1:
        p = [rng.randrange(10 ** 7), rng.randrange(10 ** 5), rng.randrange(200), rng.randrange(3)]
    elif kind == 2:
        base = rng.randrange(1, 10 ** 5)
        p = [base * 80 + rng.randrange(-2, 3), 0, base * 20 + rng.randrange(-2, 3), 0]
    else:
        p = [rng.randrange(10 ** 12), rng.randrange(10 ** 12), rng.randrange(10 ** 9), rng.randrange(10 ** 3)]
    large.append(pct(p))
check("random_digest", digest(large), "975f522b34fa8551589d")

# ---------------------------------------------------------------- 3. what is shown
RENDER_EXPLICIT = {
    "0,0,0,0": "maintainable, no refactoring necessary",
    "630,300,70,0": "maintainable, no refactoring necessary",
    "80,0,20,0": "maintainable, no refactoring necessary",
    "79,0,21,0": "hard to maintain, refactoring necessary",
    "99998,0,0,2": "unmaintainable, refactoring necessary",
    "0,0,30,1": "unmaintainable, refactoring necessary",
    "0,0,1,2": "unmaintainable, refactoring necessary",
}
for key, phrase in RENDER_EXPLICIT.items():
    shown = rendered([int(x) for x in key.split(",")])
    check(f"verdict_text[{key}]", phrase in " ".join(shown["text"].split()), True)
    check(f"verdict_md[{key}]", phrase in " ".join(shown["markdown"].split()), True)

check("render[630,300,70,0]", rendered([630, 300, 70, 0])["cells"],
      [["93%", "green"], ["7%", ""], ["0%", ""]])
check("render[80,0,20,0]", rendered([80, 0, 20, 0])["cells"],
      [["80%", ""], ["20%", ""], ["0%", ""]])
check("render[70,0,25,5]", rendered([70, 0, 25, 5])["cells"],
      [["70%", ""], ["25%", "dark_orange"], ["5%", "red"]])
check("markdown[79,0,21,0]", rendered([79, 0, 21, 0])["markdown_plain"],
      "### Summary\n| **Easy / Verbose** | **Hard-to-maintain ⚠** | **Unmaintainable ⛌** |\n| ---: | ---: | ---: |\n"
      "| 79% | 21% | 0% |\n\n⚠ 21% of the functions are hard to maintain, refactoring necessary.\n\n")
check("squares[50,0,25,25]", rendered([50, 0, 25, 25])["squares"],
      ":green_square:" * 4 + ":orange_square:" * 3 + ":red_square:" * 3 + "\n")

render_profiles = [p for p in itertools.product(range(0, 7), repeat=4) if sum(p) <= 6]
render_profiles += [[100 - h - u, 0, h, u] for h in (0, 1, 19, 20, 21, 50) for u in (0, 1, 2)]
render_profiles += [[1000 - 10 * h - 1 - u, 1, 10 * h, u] for h in (19, 20, 21) for u in (0, 1)]
render_profiles += [[0, 16, 31, 61], [0, 0, 1, 2], [0, 0, 2, 1], [10 ** 7, 0, 1, 0], [10 ** 7, 0, 0, 1]]
check("render_count", len(render_profiles), 239)
check("render_digest", digest([rendered(p) for p in render_profiles]), "49a2813217d07560a1d7")

# ---------------------------------------------------------------- 4. profiles from real measurements
LENGTHS = [0, 1, 14, 15, 16, 29, 30, 31, 59, 60, 61, 62, 1000, -3]
check("make_profile", utils.make_profile([measurement(v) for v in LENGTHS]), [27, 75, 150, 1123])
check("make_count_profile", utils.make_count_profile([measurement(v) for v in LENGTHS]), [5, 3, 3, 3])
check("make_profile_empty", utils.make_profile([]), [0, 0, 0, 0])
check("make_profile_type", type(utils.make_profile([])).__name__, "list")
check("merge_profiles", utils.merge_profiles([1, 2, 3, 4], [10, 20, 30, 40]), [11, 22, 33, 44])
check("merge_profiles_type", type(utils.merge_profiles([1, 2, 3, 4], [0, 0, 0, 0])).__name__, "list")
a, b = [1, 2, 3, 4], [5, 6, 7, 8]
utils.merge_profiles(a, b)
check("merge_profiles_pure", [a, b], [[1, 2, 3, 4], [5, 6, 7, 8]])
check("per_value_category",
      [utils.make_profile([measurement(v)]).index(v) if v else -1 for v in range(0, 70)],
      [-1] + [0] * 15 + [1] * 15 + [2] * 30 + [3] * 9)

FILES = [
    ("a.py", [15, 16]),
    ("empty.py", []),
    ("pkg/b.py", [30, 31, 60]),
    ("pkg/sub/c.py", [61, 5, 5]),
    ("pkg/sub/deep/d.py", [100]),
    ("other/e.py", [1, 0]),
]
codebase = codebase_of(FILES)
report = Report(codebase)
check("all_measurements", [m.value for m in codebase.all_measurements()],
      [15, 16, 30, 31, 60, 61, 5, 5, 100, 1, 0])
check("all_measurements_fresh", codebase.all_measurements() is not codebase.all_measurements(), True)
check("sorted_desc", [m.value for m in codebase.all_measurements_sorted_by_length_asc()],
      [100, 61, 60, 31, 30, 16, 15, 5, 5, 1, 0])
check("total_loc", codebase.total_loc(), 324)
check("quality_profile", report.quality_profile(), [26, 46, 91, 161])
check("quality_profile_type", type(report.quality_profile()).__name__, "list")
check("quality_profile_pct", list(report.quality_profile_percentage()), [6, 15, 29, 50])
check("repeatable", [list(report.quality_profile_percentage()) for _ in range(3)], [[6, 15, 29, 50]] * 3)
check("file_profiles", [e.profile() for e in codebase.files.values()],
      [[15, 16, 0, 0], [0, 0, 0, 0], [0, 30, 91, 0], [10, 0, 0, 61], [0, 0, 0, 100], [1, 0, 0, 0]])
check("tree_before_aggregate", {k: v.profile for k, v in codebase.tree.items()},
      {k: [0, 0, 0, 0] for k in ["./", "pkg/", "pkg/sub/", "pkg/sub/deep/", "other/"]})
codebase.aggregate()
check("tree_after_aggregate", {k: v.profile for k, v in codebase.tree.items()},
      {"./": [26, 46, 91, 161], "pkg/": [10, 30, 91, 161], "pkg/sub/": [10, 0, 0, 161],
       "pkg/sub/deep/": [0, 0, 0, 100], "other/": [1, 0, 0, 0]})
check("tree_profile_types", sorted({type(v.profile).__name__ for v in codebase.tree.values()}), ["list"])
codebase.aggregate()
check("tree_after_second_aggregate", {k: v.profile for k, v in codebase.tree.items()},
      {"./": [73, 122, 273, 744], "pkg/": [30, 60, 182, 583], "pkg/sub/": [20, 0, 0, 422],
       "pkg/sub/deep/": [0, 0, 0, 200], "other/": [2, 0, 0, 0]})
check("pct_after_aggregate", list(report.quality_profile_percentage()), [6, 15, 29, 50])

c = recording_console()
format_text.print_summary(c, report)
check("real_text_summary", " ".join(c.export_text(styles=False).split()),
      "Summary Easy / Verbose Hard-to-maintain ⚠ Unmaintainable ✖ " + "─" * 98 + " 21% 29% 50% 🛑 50% of lines of code are "
      "unmaintainable, refactoring necessary.")
c = recording_console()
format_markdown.print_report(c, report)
check("real_md_report", c.export_text(styles=False),
      "### Overview\n| **Language** | **Files** | **Functions** | **Lines of Code** | **⚠** | **⛌** |\n"
      "| --- | ---: | ---: | ---: | ---: | ---: |\n| Python | 6 | 11 | 324 | 2 | 2 |\n\n### Summary\n"
      "| **Easy / Verbose** | **Hard-to-maintain ⚠** | **Unmaintainable ⛌** |\n| ---: | ---: | ---: |\n"
      "| 21% | 29% | 50% |\n\n🛑 50% of the functions are unmaintainable, refactoring necessary.\n\n")

# growing the codebase after the report object exists: nothing may be cached
codebase2 = codebase_of([("x.py", [10] * 9)])
report2 = Report(codebase2)
seq = [list(report2.quality_profile_percentage())]
codebase2.add_file(SourceFileEntry("y.py", "c", "Python", 61, [measurement(61)]))
seq.append(list(report2.quality_profile_percentage()))
codebase2.add_file(SourceFileEntry("z.py", "c", "Python", 40, [measurement(40)]))
seq.append(list(report2.quality_profile_percentage()))
seq.append([m.value for m in codebase2.files["x.py"].measurements()])
check("grow_sequence", seq, [[100, 0, 0, 0], [59, 0, 0, 41], [47, 0, 21, 32], [10] * 9])

# ---------------------------------------------------------------- 5. JSON round trip keeps the lists
report.uuid = "u"
report.timestamp = "t"
report.version = "v"
text = ReportWriter(report, pretty_print=False).to_json()
check("json_digest", digest(text), "73413e2736d6951facdf")
again = ReportReader.from_json(text)
check("roundtrip_pct", list(again.quality_profile_percentage()), [6, 15, 29, 50])
check("roundtrip_tree", again.codebase.tree["./"].profile, [26, 46, 91, 161])

if "--record" in sys.argv:
    for k, v in observed.items():
        if k.endswith("digest") or k.endswith("count") or k.startswith("real_") or k.startswith("pct["):
            print(f"{k}: {v!r}")
if failures:
    print(f"{len(failures)} MISMATCHES")
    for f in failures:
        print("  " + f[:600])
    sys.exit(1)
print(f"equivalent: {len(observed)} checks ok")
