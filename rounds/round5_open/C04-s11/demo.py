import os, sys; sys.path.insert(0, os.getcwd())
"""C04: inserting comment-only / blank lines above a function must leave names, order and
lengths unchanged and shift every reported line by the number of lines inserted above it.

Scenario: a C file of ~250 lines whose last function opens a nested block on the line of its
own opening brace.  Comment lines are inserted at the top of the file, one more per round,
so that the function gradually moves from line 251 past line 256.
"""
import codelimit
from pygments.lexers import CLexer

from codelimit.common.Scanner import scan_file
from codelimit.common.lexer_utils import lex
from codelimit.languages import Languages

assert codelimit.__file__.startswith(os.getcwd()), codelimit.__file__

FILLER = "".join(
    f"static int helper_{i}(int a)\n{{\n    /* step {i} */\n    return a + {i};\n}}\n" for i in range(50)
)
SPECIAL = (
    "int special(int a) { if (a) {\n"
    "        return 1;\n"
    "    }\n"
    "    return 0;\n"
    "}\n"
)
ORIGINAL = FILLER + SPECIAL


def measure(code):
    tokens = lex(CLexer(), code, False)
    return [(m.unit_name, m.start.line, m.end.line, m.value) for m in scan_file(tokens, Languages.C)]


def main():
    base = measure(ORIGINAL)
    assert base[-1][0] == "special" and base[-1][1] == 251, base[-1]
    failures = []
    for inserted in range(1, 13):
        comment = "// note\n" if inserted % 2 else "\n"
        got = measure(comment * inserted + ORIGINAL)
        want = [(n, s + inserted, e + inserted, v) for n, s, e, v in base]
        if got != want:
            diff = [(w, g) for w, g in zip(want, got) if w != g][:3]
            failures.append((inserted, len(want), len(got), diff))
    if failures:
        for inserted, nw, ng, diff in failures:
            print(f"{inserted} line(s) inserted at the top: expected {nw} functions, got {ng}; first differences (expected, got): {diff}")
        print("C04 VIOLATED: inserting comment/blank lines changed what is measured")
        return 1
    print(f"ok: {len(base)} functions, 'special' = {base[-1][3]} lines, unchanged under 1..12 inserted lines")
    return 0


if __name__ == "__main__":
    sys.exit(main())
